//! C20: the real `teos::config::{from_file, Config, Opt}` (and `teos::cli_config`) over the presence
//! matrix of configuration-file contents and command-line options.
//!
//! usage:  cfg config <out-file> <scratch-dir>            generate + run (VERIF_TIER, VERIF_SEED)
//!         cfg config-replay <case-file> <out-file> <scratch-dir>   re-run the cases of a file
//!
//! One line per case (blank separated tokens; values are `s:<text>` `n:<int>` `b:<0|1>`):
//!   CFG <D|C> F <mode> <k> {name val}*k V <k> {name val}*k G <k> {name}*k OBS <obs>
//!     D = teosd (config.rs), C = teos-cli (cli_config.rs)
//!     F: the file. mode 0 = no teos.toml, 1 = teos.toml with the k `name = val` lines, 2 = teos.toml
//!        that is not TOML at all
//!     V: options given on the command line with a value (`--<name without _> <val>`), G: flags given
//!   obs = P <msg-token>                      the code panicked
//!       | CLIERR                             structopt refused the command line
//!       | <n> {name val}*n  R <ok|e_noauth|e_multi|e_net|e_other> <m> {name val}*m
//!         every field after patch_with_options (sorted by name); the result of verify(); the fields
//!         verify() changed, with their new values.  (C cases: only the first part.)
use std::io::{BufRead, Write};
use std::panic::{catch_unwind, AssertUnwindSafe};
use std::path::{Path, PathBuf};

use structopt::StructOpt;

use verif_harness::env_u64;
use verif_harness::rng::Rng;

#[derive(Clone, Debug, PartialEq)]
enum Val {
    S(String),
    N(u64),
    B(bool),
}

impl Val {
    fn tok(&self) -> String {
        match self {
            Val::S(s) => format!("s:{s}"),
            Val::N(n) => format!("n:{n}"),
            Val::B(b) => format!("b:{}", *b as u8),
        }
    }
    fn parse(t: &str) -> Val {
        let (k, v) = t.split_at(2);
        match k {
            "s:" => Val::S(v.to_owned()),
            "n:" => Val::N(v.parse().expect("bad n: token")),
            "b:" => Val::B(v == "1"),
            _ => panic!("bad value token {t}"),
        }
    }
    fn toml(&self) -> String {
        match self {
            Val::S(s) => format!("\"{s}\""),
            Val::N(n) => n.to_string(),
            Val::B(b) => b.to_string(),
        }
    }
    fn arg(&self) -> String {
        match self {
            Val::S(s) => s.clone(),
            Val::N(n) => n.to_string(),
            Val::B(b) => b.to_string(),
        }
    }
}

#[derive(Clone, Debug)]
struct Case {
    daemon: bool,
    mode: u8,
    file: Vec<(String, Val)>,
    vals: Vec<(String, Val)>,
    flags: Vec<String>,
}

impl Case {
    fn new(daemon: bool) -> Self {
        Case { daemon, mode: 1, file: vec![], vals: vec![], flags: vec![] }
    }
    fn describe(&self) -> String {
        let mut s = format!("CFG {} F {} {}", if self.daemon { "D" } else { "C" }, self.mode, self.file.len());
        for (k, v) in &self.file {
            s += &format!(" {k} {}", v.tok());
        }
        s += &format!(" V {}", self.vals.len());
        for (k, v) in &self.vals {
            s += &format!(" {k} {}", v.tok());
        }
        s += &format!(" G {}", self.flags.len());
        for k in &self.flags {
            s += &format!(" {k}");
        }
        s
    }
    fn parse(line: &str) -> Option<Case> {
        let t: Vec<&str> = line.split_whitespace().collect();
        if t.len() < 8 || t[0] != "CFG" {
            return None;
        }
        let mut c = Case::new(t[1] == "D");
        let mut i = 2;
        assert_eq!(t[i], "F");
        c.mode = t[i + 1].parse().ok()?;
        let k: usize = t[i + 2].parse().ok()?;
        i += 3;
        for _ in 0..k {
            c.file.push((t[i].to_owned(), Val::parse(t[i + 1])));
            i += 2;
        }
        assert_eq!(t[i], "V");
        let k: usize = t[i + 1].parse().ok()?;
        i += 2;
        for _ in 0..k {
            c.vals.push((t[i].to_owned(), Val::parse(t[i + 1])));
            i += 2;
        }
        assert_eq!(t[i], "G");
        let k: usize = t[i + 1].parse().ok()?;
        i += 2;
        for _ in 0..k {
            c.flags.push(t[i].to_owned());
            i += 1;
        }
        Some(c)
    }
    /// set (replace) a file entry / a command-line value
    fn file_set(&mut self, k: &str, v: Val) {
        self.file.retain(|(n, _)| n != k);
        self.file.push((k.to_owned(), v));
    }
    fn cli_set(&mut self, k: &str, v: Val) {
        self.vals.retain(|(n, _)| n != k);
        self.vals.push((k.to_owned(), v));
    }
    fn flag_set(&mut self, k: &str) {
        if !self.flags.iter().any(|n| n == k) {
            self.flags.push(k.to_owned());
        }
    }
}

// ------------------------------------------------------------------------------------------------
// running the real code
// ------------------------------------------------------------------------------------------------
fn json_fields(v: serde_json::Value) -> Vec<(String, Val)> {
    let mut out = vec![];
    if let serde_json::Value::Object(m) = v {
        for (k, x) in m {
            let val = match x {
                serde_json::Value::String(s) => Val::S(s),
                serde_json::Value::Bool(b) => Val::B(b),
                serde_json::Value::Number(n) => Val::N(n.as_u64().unwrap_or(u64::MAX)),
                other => Val::S(format!("?{other}")),
            };
            out.push((k, val));
        }
    }
    out
}

fn daemon_fields(c: &teos::config::Config) -> Vec<(String, Val)> {
    // every known field is read straight from the struct (a field serde skips would be missing from a
    // serialised view); fields this list does not know yet are taken from the JSON view
    macro_rules! fields {
        ($($name:ident : $kind:ident),* $(,)?) => {
            vec![$((stringify!($name).to_owned(), fields!(@v $kind c.$name))),*]
        };
        (@v S $e:expr) => { Val::S($e.clone()) };
        (@v N $e:expr) => { Val::N($e as u64) };
        (@v B $e:expr) => { Val::B($e) };
    }
    let mut f: Vec<(String, Val)> = fields!(
        api_bind: S, api_port: N, rpc_bind: S, rpc_port: N,
        btc_network: S, btc_rpc_user: S, btc_rpc_cookie: S, btc_rpc_password: S, btc_rpc_connect: S, btc_rpc_port: N,
        debug: B, deps_debug: B, overwrite_key: B, force_update: B,
        subscription_slots: N, subscription_duration: N, expiry_delta: N, min_to_self_delay: N, polling_delta: N,
        internal_api_bind: S, internal_api_port: N,
        tor_support: B, tor_control_port: N, onion_hidden_service_port: N,
    );
    for (k, v) in json_fields(serde_json::json!(c)) {
        if !f.iter().any(|(n, _)| *n == k) {
            f.push((k, v));
        }
    }
    f.sort_by(|a, b| a.0.cmp(&b.0));
    f
}

fn fields_tokens(f: &[(String, Val)]) -> String {
    let mut s = f.len().to_string();
    for (k, v) in f {
        s += &format!(" {k} {}", v.tok());
    }
    s
}

fn long_name(field: &str) -> String {
    // #[structopt(rename_all = "lowercase")]: snake case with the word boundaries removed
    format!("--{}", field.replace('_', ""))
}

fn write_file(case: &Case, path: &Path) {
    match case.mode {
        0 => {
            let _ = std::fs::remove_file(path);
        }
        1 => {
            let mut s = String::new();
            for (k, v) in &case.file {
                s += &format!("{k} = {}\n", v.toml());
            }
            std::fs::write(path, s).expect("cannot write teos.toml");
        }
        _ => std::fs::write(path, "this is = = not [ toml\n").expect("cannot write teos.toml"),
    }
}

fn args_of(case: &Case, bin: &str) -> Vec<String> {
    let mut a = vec![bin.to_owned()];
    for (k, v) in &case.vals {
        a.push(long_name(k));
        a.push(v.arg());
    }
    for k in &case.flags {
        a.push(long_name(k));
    }
    a
}

fn run_daemon(case: &Case, path: &PathBuf) -> String {
    use teos::config::{from_file, Config, Opt};
    let opt = match Opt::from_iter_safe(args_of(case, "teosd")) {
        Ok(o) => o,
        Err(_) => return "CLIERR".to_owned(),
    };
    // main.rs: from_file, patch_with_options, verify
    let mut conf = from_file::<Config>(path);
    conf.patch_with_options(opt);
    let patched = daemon_fields(&conf);
    let res = match conf.verify() {
        Ok(()) => "ok",
        Err(e) => {
            let m = e.to_string();
            if m.contains("No valid bitcoind auth provided") {
                "e_noauth"
            } else if m.contains("Multiple bitcoind auth provided") {
                "e_multi"
            } else if m.contains("btc_network not recognized") {
                "e_net"
            } else {
                "e_other"
            }
        }
    };
    let fin = daemon_fields(&conf);
    let changed: Vec<(String, Val)> = fin.into_iter().filter(|kv| !patched.contains(kv)).collect();
    format!("{} R {res} {}", fields_tokens(&patched), fields_tokens(&changed))
}

fn run_cli(case: &Case, path: &PathBuf) -> String {
    use teos::cli_config::{Config, Opt};
    let mut args = args_of(case, "teos-cli");
    args.push("gettowerinfo".to_owned());
    let opt = match Opt::from_iter_safe(args) {
        Ok(o) => o,
        Err(_) => return "CLIERR".to_owned(),
    };
    // cli.rs: from_file, patch_with_options
    let mut conf = teos::config::from_file::<Config>(path);
    conf.patch_with_options(opt);
    let f = vec![
        ("rpc_bind".to_owned(), Val::S(conf.rpc_bind.clone())),
        ("rpc_port".to_owned(), Val::N(conf.rpc_port as u64)),
    ];
    fields_tokens(&f)
}

fn run_case(case: &Case, dir: &Path) -> String {
    let path = dir.join("teos.toml");
    write_file(case, &path);
    let r = catch_unwind(AssertUnwindSafe(|| if case.daemon { run_daemon(case, &path) } else { run_cli(case, &path) }));
    let obs = match r {
        Ok(s) => s,
        Err(e) => {
            let m = e
                .downcast_ref::<String>()
                .cloned()
                .or_else(|| e.downcast_ref::<&str>().map(|s| s.to_string()))
                .unwrap_or_else(|| "?".to_owned());
            format!("P {}", m.split_whitespace().collect::<Vec<_>>().join("_"))
        }
    };
    format!("{} OBS {obs}", case.describe())
}

/// Runs the cases on `threads` workers (each with its own scratch directory, the real code only reads
/// the path it is given) and writes the lines in the order of the cases.
fn run_all(cases: &[Case], dir: &Path, out: &mut impl Write) {
    let threads = std::thread::available_parallelism().map(|n| n.get()).unwrap_or(4).min(16);
    let dirs: Vec<PathBuf> = (0..threads)
        .map(|t| {
            let d = dir.join(format!("t{t}"));
            std::fs::create_dir_all(&d).expect("cannot create scratch dir");
            d
        })
        .collect();
    for batch in cases.chunks(threads * 512) {
        let chunk = (batch.len() + threads - 1) / threads;
        let results: Vec<Vec<String>> = std::thread::scope(|s| {
            let handles: Vec<_> = batch
                .chunks(chunk.max(1))
                .zip(dirs.iter())
                .map(|(part, d)| s.spawn(move || part.iter().map(|c| run_case(c, d)).collect::<Vec<String>>()))
                .collect();
            handles.into_iter().map(|h| h.join().expect("worker died")).collect()
        });
        for lines in results {
            for l in lines {
                writeln!(out, "{l}").unwrap();
            }
        }
    }
}

// ------------------------------------------------------------------------------------------------
// the option inventory the generators range over (the interface as documented: conf_template.toml
// and --help)
// ------------------------------------------------------------------------------------------------
#[derive(Clone, Copy, PartialEq)]
enum Ty {
    Str,
    U16,
    U32,
    Bool,
}
#[derive(Clone, Copy, PartialEq)]
enum Cli {
    Value,
    Flag,
    None,
}
struct O {
    name: &'static str,
    ty: Ty,
    cli: Cli,
}
const fn o(name: &'static str, ty: Ty, cli: Cli) -> O {
    O { name, ty, cli }
}

const DAEMON: &[O] = &[
    o("api_bind", Ty::Str, Cli::Value),
    o("api_port", Ty::U16, Cli::Value),
    o("rpc_bind", Ty::Str, Cli::Value),
    o("rpc_port", Ty::U16, Cli::Value),
    o("btc_network", Ty::Str, Cli::Value),
    o("btc_rpc_user", Ty::Str, Cli::Value),
    o("btc_rpc_password", Ty::Str, Cli::Value),
    o("btc_rpc_cookie", Ty::Str, Cli::Value),
    o("btc_rpc_connect", Ty::Str, Cli::Value),
    o("btc_rpc_port", Ty::U16, Cli::Value),
    o("tor_control_port", Ty::U16, Cli::Value),
    o("onion_hidden_service_port", Ty::U16, Cli::Value),
    o("debug", Ty::Bool, Cli::Flag),
    o("deps_debug", Ty::Bool, Cli::Flag),
    o("tor_support", Ty::Bool, Cli::Flag),
    o("overwrite_key", Ty::Bool, Cli::Flag),
    o("force_update", Ty::Bool, Cli::Flag),
    o("subscription_slots", Ty::U32, Cli::None),
    o("subscription_duration", Ty::U32, Cli::None),
    o("expiry_delta", Ty::U32, Cli::None),
    o("min_to_self_delay", Ty::U16, Cli::None),
    o("polling_delta", Ty::U16, Cli::None),
    o("internal_api_bind", Ty::Str, Cli::None),
    o("internal_api_port", Ty::U32, Cli::None),
];

const TEOS_CLI: &[O] = &[o("rpc_bind", Ty::Str, Cli::Value), o("rpc_port", Ty::U16, Cli::Value)];

const NETWORKS: &[&str] = &[
    "mainnet", "testnet", "regtest", "signet", // the four documented names
    "main", "test", // bitcoind's chain names
    "bitcoin", "Mainnet", "MAINNET", "testnet4", "net", "mainnetnet", "testnetnet", "regtestnet", "signetnet", "mainnet.", "liquid", "",
];

/// two distinct values per option, both different from the default; `which` in {1, 2}
fn value(ix: usize, op: &O, which: u64) -> Val {
    match op.ty {
        Ty::Str => match op.name {
            "btc_network" => Val::S(if which == 1 { "regtest" } else { "signet" }.to_owned()),
            _ => Val::S(format!("{}-{which}", op.name.replace('_', "."))),
        },
        Ty::U16 => Val::N(1000 + 2 * ix as u64 + which),
        Ty::U32 => Val::N(100_000 + 2 * ix as u64 + which),
        Ty::Bool => Val::B(which == 1),
    }
}

/// a value from the wider pool of an option (edges included)
fn pool_value(rng: &mut Rng, ix: usize, op: &O) -> Val {
    match op.ty {
        Ty::Str => match op.name {
            "btc_network" => Val::S((*rng.pick(NETWORKS)).to_owned()),
            "btc_rpc_user" | "btc_rpc_password" | "btc_rpc_cookie" => {
                Val::S((*rng.pick(&["", "", "x", "y", "~/.bitcoin/.cookie"])).to_owned())
            }
            _ => match rng.below(4) {
                0 => Val::S(String::new()),
                1 => Val::S("127.0.0.1".to_owned()),
                _ => value(ix, op, 1 + rng.below(2)),
            },
        },
        Ty::U16 => match rng.below(6) {
            0 => Val::N(0),
            1 => Val::N(65535),
            2 => Val::N(8332),
            _ => value(ix, op, 1 + rng.below(2)),
        },
        Ty::U32 => match rng.below(6) {
            0 => Val::N(0),
            1 => Val::N(4294967295),
            2 => Val::N(65536),
            _ => value(ix, op, 1 + rng.below(2)),
        },
        Ty::Bool => Val::B(rng.chance(1, 2)),
    }
}

/// a value of the wrong type / out of range for the option (file side)
fn bad_file_value(rng: &mut Rng, op: &O) -> Val {
    match op.ty {
        Ty::Str => {
            if rng.chance(1, 2) {
                Val::N(7)
            } else {
                Val::B(true)
            }
        }
        Ty::U16 => match rng.below(3) {
            0 => Val::N(65536),
            1 => Val::S("80".to_owned()),
            _ => Val::B(false),
        },
        Ty::U32 => match rng.below(3) {
            0 => Val::N(4294967296),
            1 => Val::S("80".to_owned()),
            _ => Val::B(false),
        },
        Ty::Bool => {
            if rng.chance(1, 2) {
                Val::N(1)
            } else {
                Val::S("true".to_owned())
            }
        }
    }
}

/// the states one option can be in: (file value or none, cli value / flag or none)
fn states(ix: usize, op: &O) -> Vec<(Option<Val>, Option<Val>)> {
    let fvals: Vec<Option<Val>> = vec![None, Some(value(ix, op, 1)), Some(value(ix, op, 2))];
    let cvals: Vec<Option<Val>> = match op.cli {
        Cli::Value => vec![None, Some(value(ix, op, 1)), Some(value(ix, op, 2))],
        Cli::Flag => vec![None, Some(Val::B(true))],
        Cli::None => vec![None],
    };
    let mut v = vec![];
    for f in &fvals {
        for c in &cvals {
            v.push((f.clone(), c.clone()));
        }
    }
    v
}

fn apply_state(case: &mut Case, op: &O, st: &(Option<Val>, Option<Val>)) {
    if let Some(v) = &st.0 {
        case.file_set(op.name, v.clone());
    }
    if let Some(v) = &st.1 {
        match op.cli {
            Cli::Flag => case.flag_set(op.name),
            _ => case.cli_set(op.name, v.clone()),
        }
    }
}

fn context(daemon: bool, which: u8) -> Case {
    let mut c = Case::new(daemon);
    match which {
        1 => {
            c.file_set("btc_rpc_user", Val::S("user".into()));
            c.file_set("btc_rpc_password", Val::S("pass".into()));
        }
        2 => {
            c.cli_set("btc_rpc_cookie", Val::S("~/.cookie".into()));
            c.file_set("btc_network", Val::S("testnet".into()));
        }
        _ => {}
    }
    c
}

fn generate(tier: &str, seed: u64, emit: &mut dyn FnMut(&Case)) -> u64 {
    let thorough = tier == "thorough";
    let mut exhaustive = 0u64;

    // (A) every option x {absent, v1, v2 in the file} x {absent, v1, v2 / flag on the command line},
    //     in three contexts (nothing else set; user+password in the file; cookie on the command line)
    for ctx in 0..3u8 {
        for (ix, op) in DAEMON.iter().enumerate() {
            for st in states(ix, op) {
                let mut c = context(true, ctx);
                apply_state(&mut c, op, &st);
                emit(&c);
                exhaustive += 1;
            }
        }
    }
    // the same without any file, and with every option at once
    for mode in [0u8, 1] {
        for (fw, cw) in [(0u64, 0u64), (1, 0), (0, 2), (1, 2), (2, 1)] {
            let mut c = Case::new(true);
            c.mode = mode;
            for (ix, op) in DAEMON.iter().enumerate() {
                if fw > 0 && mode == 1 {
                    c.file_set(op.name, value(ix, op, fw));
                }
                if cw > 0 {
                    match op.cli {
                        Cli::Value => c.cli_set(op.name, value(ix, op, cw)),
                        Cli::Flag => c.flag_set(op.name),
                        Cli::None => {}
                    }
                }
            }
            emit(&c);
            exhaustive += 1;
        }
    }

    // (B) networks x source of the network x 8 credential combinations x source of the credentials x
    //     port setting
    let cred = ["btc_rpc_user", "btc_rpc_password", "btc_rpc_cookie"];
    for net in NETWORKS {
        for nsrc in 0..3u8 {
            for combo in 0..8u8 {
                for csrc in 0..3u8 {
                    for port in 0..6u8 {
                        let mut c = Case::new(true);
                        match nsrc {
                            0 => c.file_set("btc_network", Val::S((*net).to_owned())),
                            1 => c.cli_set("btc_network", Val::S((*net).to_owned())),
                            _ => {
                                c.file_set("btc_network", Val::S("regtest".to_owned()));
                                c.cli_set("btc_network", Val::S((*net).to_owned()));
                            }
                        }
                        for (i, name) in cred.iter().enumerate() {
                            if combo & (1 << i) != 0 {
                                let v = Val::S(format!("c{i}"));
                                let on_cli = match csrc {
                                    0 => false,
                                    1 => true,
                                    _ => i % 2 == 1,
                                };
                                if on_cli {
                                    c.cli_set(name, v);
                                } else {
                                    c.file_set(name, v);
                                }
                            }
                        }
                        match port {
                            0 => {}
                            1 => c.file_set("btc_rpc_port", Val::N(0)),
                            2 => c.cli_set("btc_rpc_port", Val::N(0)),
                            3 => c.file_set("btc_rpc_port", Val::N(1234)),
                            4 => c.cli_set("btc_rpc_port", Val::N(4321)),
                            _ => {
                                c.file_set("btc_rpc_port", Val::N(1234));
                                c.cli_set("btc_rpc_port", Val::N(0));
                            }
                        }
                        emit(&c);
                        exhaustive += 1;
                    }
                }
            }
        }
    }
    // the default network (nothing said about it) x 8 credential combinations
    for combo in 0..8u8 {
        let mut c = Case::new(true);
        for (i, name) in cred.iter().enumerate() {
            if combo & (1 << i) != 0 {
                c.file_set(name, Val::S(format!("c{i}")));
            }
        }
        emit(&c);
        exhaustive += 1;
    }

    // (C) each credential field in one of six states (an explicit empty string on the command line
    //     overrides a non-empty file value, and the other way round)
    for net in [None, Some("regtest")] {
        for s in 0..216u32 {
            let mut c = Case::new(true);
            if let Some(n) = net {
                c.cli_set("btc_network", Val::S(n.to_owned()));
            }
            let mut x = s;
            for name in cred.iter() {
                match x % 6 {
                    0 => {}
                    1 => c.file_set(name, Val::S("f".into())),
                    2 => c.cli_set(name, Val::S("c".into())),
                    3 => {
                        c.file_set(name, Val::S("f".into()));
                        c.cli_set(name, Val::S(String::new()));
                    }
                    4 => {
                        c.file_set(name, Val::S(String::new()));
                        c.cli_set(name, Val::S("c".into()));
                    }
                    _ => c.file_set(name, Val::S(String::new())),
                }
                x /= 6;
            }
            emit(&c);
            exhaustive += 1;
        }
    }

    // (D) the five flags: file in {absent, true, false}^5 x command line in {unset, set}^5
    let flags: Vec<&O> = DAEMON.iter().filter(|o| o.cli == Cli::Flag).collect();
    for fs in 0..243u32 {
        for cs in 0..32u32 {
            let mut c = context(true, 1);
            let mut x = fs;
            for (i, op) in flags.iter().enumerate() {
                match x % 3 {
                    1 => c.file_set(op.name, Val::B(true)),
                    2 => c.file_set(op.name, Val::B(false)),
                    _ => {}
                }
                x /= 3;
                if cs & (1 << i) != 0 {
                    c.flag_set(op.name);
                }
            }
            emit(&c);
            exhaustive += 1;
        }
    }

    // (E) pairwise: every pair of options, every combination of their states
    for i in 0..DAEMON.len() {
        for j in (i + 1)..DAEMON.len() {
            for si in states(i, &DAEMON[i]) {
                for sj in states(j, &DAEMON[j]) {
                    let mut c = context(true, 1);
                    apply_state(&mut c, &DAEMON[i], &si);
                    apply_state(&mut c, &DAEMON[j], &sj);
                    emit(&c);
                    exhaustive += 1;
                }
            }
        }
    }

    // (F) teos-cli: both options in all states, with and without the daemon's keys in the shared file
    for extra in 0..2u8 {
        for mode in [0u8, 1, 2] {
            for s0 in states(0, &TEOS_CLI[0]) {
                for s1 in states(1, &TEOS_CLI[1]) {
                    let mut c = Case::new(false);
                    c.mode = mode;
                    if extra == 1 {
                        c.file_set("api_port", Val::N(1));
                        c.file_set("btc_rpc_user", Val::S("u".into()));
                    }
                    apply_state(&mut c, &TEOS_CLI[0], &s0);
                    apply_state(&mut c, &TEOS_CLI[1], &s1);
                    emit(&c);
                    exhaustive += 1;
                }
            }
        }
    }

    // (G) random combinations across all options, with the irregular inputs mixed in
    let n_random = if thorough { 400_000 } else { 30_000 };
    let mut rng = Rng::new(seed ^ 0xC20);
    for _ in 0..n_random {
        let daemon = !rng.chance(1, 20);
        let inv = if daemon { DAEMON } else { TEOS_CLI };
        let mut c = Case::new(daemon);
        let density = 1 + rng.below(4); // how many quarters of the options are touched
        for (ix, op) in inv.iter().enumerate() {
            if rng.below(4) >= density {
                continue;
            }
            let src = rng.below(3); // 0 file, 1 command line, 2 both
            if src != 1 {
                c.file_set(op.name, pool_value(&mut rng, ix, op));
            }
            if src != 0 {
                match op.cli {
                    Cli::Value => c.cli_set(op.name, pool_value(&mut rng, ix, op)),
                    Cli::Flag => c.flag_set(op.name),
                    Cli::None => {}
                }
            }
        }
        if daemon && rng.chance(1, 2) {
            // make verify reach the network stage more often
            match rng.below(3) {
                0 => {
                    c.file_set("btc_rpc_user", Val::S("u".into()));
                    c.file_set("btc_rpc_password", Val::S("p".into()));
                    c.vals.retain(|(n, _)| n != "btc_rpc_cookie" && n != "btc_rpc_user" && n != "btc_rpc_password");
                    c.file.retain(|(n, _)| n != "btc_rpc_cookie");
                }
                1 => {
                    c.cli_set("btc_rpc_cookie", Val::S("ck".into()));
                    c.file.retain(|(n, _)| n != "btc_rpc_user" && n != "btc_rpc_password");
                    c.vals.retain(|(n, _)| n != "btc_rpc_user" && n != "btc_rpc_password");
                }
                _ => {}
            }
        }
        match rng.below(100) {
            0..=2 => c.mode = 0,
            3 => c.mode = 2,
            4..=6 => {
                // one ill-typed / out-of-range entry: toml refuses the whole document
                let ix = rng.below(inv.len() as u64) as usize;
                let v = bad_file_value(&mut rng, &inv[ix]);
                c.file_set(inv[ix].name, v);
            }
            7..=8 => c.file_set("no_such_key", Val::N(1)),
            9 => {
                // a key twice
                if let Some(e) = c.file.first().cloned() {
                    c.file.push(e);
                }
            }
            10 => {
                // a value structopt refuses
                let ix = rng.below(inv.len() as u64) as usize;
                if inv[ix].cli == Cli::Value && inv[ix].ty != Ty::Str {
                    c.cli_set(inv[ix].name, if rng.chance(1, 2) { Val::N(65536) } else { Val::S("x".into()) });
                }
            }
            11 => c.flag_set("no_such_flag"),
            _ => {}
        }
        emit(&c);
    }
    exhaustive
}

fn main() {
    let args: Vec<String> = std::env::args().collect();
    if args.len() < 4 {
        eprintln!("usage: cfg config <out> <scratch-dir> | cfg config-replay <cases> <out> <scratch-dir>");
        std::process::exit(2);
    }
    match args[1].as_str() {
        "config" => {
            let out = std::fs::File::create(&args[2]).expect("cannot create output file");
            let mut out = std::io::BufWriter::new(out);
            let dir = PathBuf::from(&args[3]);
            std::fs::create_dir_all(&dir).expect("cannot create scratch dir");
            let tier = std::env::var("VERIF_TIER").unwrap_or_else(|_| "quick".to_owned());
            let seed = env_u64("VERIF_SEED", 0);
            let mut cases: Vec<Case> = vec![];
            let exh = {
                let mut emit = |c: &Case| cases.push(c.clone());
                generate(&tier, seed, &mut emit)
            };
            run_all(&cases, &dir, &mut out);
            writeln!(out, "CFGEXH {exh}").unwrap();
            out.flush().unwrap();
        }
        "config-replay" => {
            if args.len() < 5 {
                eprintln!("usage: cfg config-replay <cases> <out> <scratch-dir>");
                std::process::exit(2);
            }
            let inp = std::io::BufReader::new(std::fs::File::open(&args[2]).expect("cannot open case file"));
            let out = std::fs::File::create(&args[3]).expect("cannot create output file");
            let mut out = std::io::BufWriter::new(out);
            let dir = PathBuf::from(&args[4]);
            std::fs::create_dir_all(&dir).expect("cannot create scratch dir");
            for line in inp.lines() {
                let line = line.unwrap();
                if let Some(c) = Case::parse(&line) {
                    writeln!(out, "{}", run_case(&c, &dir)).unwrap();
                }
            }
            out.flush().unwrap();
        }
        other => {
            eprintln!("unknown runner {other}");
            std::process::exit(2);
        }
    }
}
