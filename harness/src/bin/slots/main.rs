//! C07 (slot formula): the REAL `teos_common::appointment::compute_appointment_slots`
//!  (a) swept exhaustively over every n in 0..=2^24+2^16 against the exact ceiling
//!      (n + max - 1) / max computed in integer arithmetic, at the real ENCRYPTED_BLOB_MAX_SIZE;
//!  (b) observed on the points the extracted Flocq model is evaluated on.
//!
//! usage: slots run <out-file>            (honours VERIF_SEED, VERIF_TIER=quick|thorough)
//!        slots replay <case-file> <out-file>
//!
//! Output lines (tokens separated by blanks; all integers, decimal; a usize may need 64 bits):
//!   SLCONST <ENCRYPTED_BLOB_MAX_SIZE>
//!   SL <n> OBS <v>            v = compute_appointment_slots(n, ENCRYPTED_BLOB_MAX_SIZE), -1 = panic
//!   SLD <n> <d> OBS <v>       v = compute_appointment_slots(n, d)                       -1 = panic
//!   SLWRONG <n> <v> <exact>   every n of the sweep with v != exact (all of them up to a cap)
//!   SLSWEEP <upto> <evaluated> <wrong> <wrong_le_2p24> <first_wrong> <last_wrong> <panics>
//!                             (first/last = -1 when there is none)
use std::collections::BTreeSet;
use std::io::Write;
use std::panic::{catch_unwind, AssertUnwindSafe};

use teos_common::appointment::compute_appointment_slots;
use teos_common::constants::ENCRYPTED_BLOB_MAX_SIZE;

use verif_harness::env_u64;
use verif_harness::rng::Rng;

const TWO24: u64 = 1 << 24;
const SWEEP_UPTO: u64 = TWO24 + (1 << 16);
/// at most this many SLWRONG lines / wrong points added to the case set
const WRONG_CAP: usize = 400;

/// the real function, a panic reported as -1
fn real(n: u64, d: u64) -> i64 {
    match catch_unwind(AssertUnwindSafe(|| {
        compute_appointment_slots(std::hint::black_box(n as usize), std::hint::black_box(d as usize))
    })) {
        Ok(v) => v as i64,
        Err(_) => -1,
    }
}

/// exact ceiling in integer arithmetic (d > 0)
fn exact(n: u64, d: u64) -> u64 {
    ((n as u128 + (d as u128 - 1)) / d as u128) as u64
}

fn sweep(out: &mut dyn Write, extra: &mut BTreeSet<u64>) {
    let d = ENCRYPTED_BLOB_MAX_SIZE as u64;
    let (mut wrong, mut wrong_le, mut panics, mut evaluated) = (0u64, 0u64, 0u64, 0u64);
    let (mut first, mut last) = (-1i64, -1i64);
    let mut listed_le = 0usize;
    let mut listed_gt = 0usize;
    for n in 0..=SWEEP_UPTO {
        let v = real(n, d);
        evaluated += 1;
        if v < 0 {
            panics += 1;
        }
        // n = 0: the exact ceiling is 0 but the property also says "never less than one": 0 and 1
        // are both left to the monitor (drv_slots.ml, class zero-blob), neither counts as wrong here
        let ok = d != 0 && (v == exact(n, d) as i64 || (n == 0 && v == 1));
        if !ok {
            wrong += 1;
            if first < 0 {
                first = n as i64;
            }
            last = n as i64;
            let listed = if n <= TWO24 {
                wrong_le += 1;
                &mut listed_le
            } else {
                &mut listed_gt
            };
            if *listed < WRONG_CAP {
                *listed += 1;
                let ex = if d == 0 { -1 } else { exact(n, d) as i64 };
                writeln!(out, "SLWRONG {n} {v} {ex}").unwrap();
                extra.insert(n);
            }
        }
    }
    writeln!(out, "SLSWEEP {SWEEP_UPTO} {evaluated} {wrong} {wrong_le} {first} {last} {panics}").unwrap();
}

fn points(seed: u64, thorough: bool) -> (BTreeSet<u64>, Vec<u64>, Vec<(u64, u64)>) {
    let mut rng = Rng::new(seed ^ 0xC07_510);
    let mut set: BTreeSet<u64> = BTreeSet::new();
    // +-2 around every multiple of 2048 (the model's slot size) up to the end of the sweep
    let mut m = 0u64;
    while m <= SWEEP_UPTO + 2048 {
        for k in -2i64..=2 {
            let n = m as i64 + k;
            if n >= 0 {
                set.insert(n as u64);
            }
        }
        m += 2048;
    }
    // the same around every multiple of the real constant, should it differ
    let d = ENCRYPTED_BLOB_MAX_SIZE as u64;
    if d != 2048 && d != 0 {
        let mut m = 0u64;
        while m <= SWEEP_UPTO && set.len() < 200_000 {
            for k in -2i64..=2 {
                let n = m as i64 + k;
                if n >= 0 {
                    set.insert(n as u64);
                }
            }
            m += d;
        }
    }
    for n in 0..=100 {
        set.insert(n);
    }
    // every n of the sweep above 2^24, where the conversion rounds (below 2^24 the model is
    // PROVED equal to the exact ceiling the sweep compares the real function with)
    for n in TWO24 - 300..=SWEEP_UPTO {
        set.insert(n);
    }
    // the lengths the tower harness uses and the transport caps
    for n in [1023u64, 1024, 1025, 4 * 1024 * 1024 - 1, 4 * 1024 * 1024, 4 * 1024 * 1024 + 1] {
        set.insert(n);
    }
    // random: inside the exact range, and up to 2^32
    let (n_in, n_out) = if thorough { (1_000_000, 1_000_000) } else { (8_000, 20_000) };
    for _ in 0..n_in {
        set.insert(rng.below(TWO24 + 1));
    }
    let mut random: Vec<u64> = Vec::new();
    for _ in 0..n_out {
        let bits = 25 + rng.below(8); // magnitudes 2^25 .. 2^32
        random.push(rng.below(1u64 << bits));
    }
    // saturation of the u32 cast: quotients around 2^32 (n around 2^43), and huge usize values
    let mut huge: Vec<u64> = vec![
        u32::MAX as u64 - 1,
        u32::MAX as u64,
        1 << 32,
        (1 << 32) + 1,
        (u32::MAX as u64) * 2048 - 1,
        (u32::MAX as u64) * 2048,
        (u32::MAX as u64) * 2048 + 1,
        ((1u64 << 32) - 256) * 2048,
        ((1u64 << 32) - 128) * 2048,
        ((1u64 << 32) - 129) * 2048,
        ((1u64 << 32) - 127) * 2048,
        (1u64 << 43) - 1,
        1u64 << 43,
        (1u64 << 43) + 1,
        1u64 << 53,
        (1u64 << 53) + 1,
        (1u64 << 63) - 1,
        1u64 << 63,
        u64::MAX - (1 << 39),
        u64::MAX - (1 << 39) - 1,
        u64::MAX - 1,
        u64::MAX,
    ];
    for _ in 0..(if thorough { 2000 } else { 200 }) {
        let bits = 33 + rng.below(32);
        huge.push(rng.next() >> (64 - bits));
    }
    random.extend(huge);
    // other divisors (correspondence only): 0 (inf / NaN), non powers of two, huge
    let divisors: [u64; 19] = [
        0, 1, 2, 3, 5, 7, 10, 100, 1000, 1024, 2047, 2049, 4096, 65536, (1 << 24) - 1, (1 << 24) + 1,
        1 << 32, (1 << 53) + 1, u64::MAX,
    ];
    let mut pairs: Vec<(u64, u64)> = Vec::new();
    for d in divisors {
        let mut ns: Vec<u64> = vec![0, 1, 2, 3, 2047, 2048, 2049, TWO24 - 1, TWO24, TWO24 + 1, 3 * (1 << 23) + 1, u64::MAX];
        for k in [1u64, 2, 3, 1000, 8191, 8192, 8193, 1 << 23] {
            if let Some(p) = d.checked_mul(k) {
                ns.push(p.saturating_sub(1));
                ns.push(p);
                ns.push(p.saturating_add(1));
            }
        }
        for _ in 0..(if thorough { 400 } else { 30 }) {
            let bits = 1 + rng.below(64);
            ns.push(rng.next() >> (64 - bits));
        }
        for n in ns {
            pairs.push((n, d));
        }
    }
    pairs.sort_unstable();
    pairs.dedup();
    (set, random, pairs)
}

fn run(out: &mut dyn Write) {
    let seed = env_u64("VERIF_SEED", 0);
    let thorough = std::env::var("VERIF_TIER").map(|t| t == "thorough").unwrap_or(false);
    let d = ENCRYPTED_BLOB_MAX_SIZE as u64;
    writeln!(out, "SLCONST {d}").unwrap();
    let (mut set, random, pairs) = points(seed, thorough);
    sweep(out, &mut set);
    for n in set.iter().chain(random.iter()) {
        writeln!(out, "SL {n} OBS {}", real(*n, d)).unwrap();
    }
    for (n, dd) in pairs {
        writeln!(out, "SLD {n} {dd} OBS {}", real(n, dd)).unwrap();
    }
}

fn replay(out: &mut dyn Write, case_file: &str) {
    let d = ENCRYPTED_BLOB_MAX_SIZE as u64;
    writeln!(out, "SLCONST {d}").unwrap();
    let text = std::fs::read_to_string(case_file).expect("cannot read case file");
    for l in text.lines() {
        let t: Vec<&str> = l.split_whitespace().collect();
        match t.as_slice() {
            ["SL", n, ..] => {
                if let Ok(n) = n.parse::<u64>() {
                    writeln!(out, "SL {n} OBS {}", real(n, d)).unwrap();
                }
            }
            ["SLD", n, dd, ..] => {
                if let (Ok(n), Ok(dd)) = (n.parse::<u64>(), dd.parse::<u64>()) {
                    writeln!(out, "SLD {n} {dd} OBS {}", real(n, dd)).unwrap();
                }
            }
            _ => {}
        }
    }
}

fn main() {
    std::panic::set_hook(Box::new(|_| {}));
    let args: Vec<String> = std::env::args().collect();
    let usage = || -> ! {
        eprintln!("usage: slots run <out-file> | slots replay <case-file> <out-file>");
        std::process::exit(2)
    };
    if args.len() < 3 {
        usage();
    }
    match args[1].as_str() {
        "run" => {
            let f = std::fs::File::create(&args[2]).expect("cannot create output file");
            let mut out = std::io::BufWriter::new(f);
            run(&mut out);
            out.flush().unwrap();
        }
        "replay" => {
            if args.len() < 4 {
                usage();
            }
            let f = std::fs::File::create(&args[3]).expect("cannot create output file");
            let mut out = std::io::BufWriter::new(f);
            replay(&mut out, &args[2]);
            out.flush().unwrap();
        }
        _ => usage(),
    }
}
