//! Generator, token rendering and parsing of abstract tower histories.
use verif_harness::rng::Rng;
use verif_harness::world::{Cfg, Op, Script, World};
use verif_harness::Line;

/// abstract operation: like `Op` but blobs are requests (key, payload, wanted length, salt)
#[derive(Clone, Debug)]
pub enum AOp {
    Register(u64),
    Add { signer: i64, class: u8, loc: u64, key: u64, pay: i64, len: u64, delay: u32, salt: u64 },
    Get { signer: i64, class: u8, loc: u64 },
    GetSub { signer: i64, class: u8 },
    Connect { hash: u64, txs: Vec<u64> },
    Disconnect,
}

#[derive(Clone, Debug)]
pub struct AStep {
    pub op: AOp,
    pub script: Script,
}

#[derive(Clone, Debug)]
pub struct AHistory {
    pub cfg: Cfg,
    pub steps: Vec<AStep>,
}

pub fn materialise(w: &mut World, st: &AStep) -> Op {
    match &st.op {
        AOp::Register(u) => Op::Register(*u),
        AOp::Add { signer, class, loc, key, pay, len, delay, salt } => {
            let blob = w.make_blob(*key, *pay, *len, *salt);
            Op::Add { signer: *signer, class: *class, loc: *loc, blob, delay: *delay }
        }
        AOp::Get { signer, class, loc } => Op::Get { signer: *signer, class: *class, loc: *loc },
        AOp::GetSub { signer, class } => Op::GetSub { signer: *signer, class: *class },
        AOp::Connect { hash, txs } => Op::Connect { hash: *hash, txs: txs.clone() },
        AOp::Disconnect => Op::Disconnect,
    }
}

pub fn op_tokens(w: &World, op: &Op, script: &Script, line: &mut Line) {
    match op {
        Op::Register(u) => {
            line.tok("R").tok(u);
        }
        Op::Add { signer, class, loc, blob, delay } => {
            let ab = w.blobs[*blob].1;
            // salt is only needed to regenerate garbage bytes: keep the handle's position as salt
            line.tok("A").tok(signer).tok(class).tok(loc).tok(ab.key).tok(ab.pay).tok(ab.len).tok(delay).tok(*blob);
        }
        Op::Get { signer, class, loc } => {
            line.tok("G").tok(signer).tok(class).tok(loc);
        }
        Op::GetSub { signer, class } => {
            line.tok("S").tok(signer).tok(class);
        }
        Op::Connect { hash, txs } => {
            line.tok("C").tok(hash).tok(txs.len());
            for t in txs {
                line.tok(t);
            }
        }
        Op::Disconnect => {
            line.tok("D");
        }
    }
    line.tok(script.len());
    for (t, g, s) in script {
        line.tok(t).tok(g).tok(s);
    }
}

/// Parses the operations (not the observations) of a TW line back into an abstract history.
pub fn parse_history(l: &str) -> Option<AHistory> {
    let toks: Vec<&str> = l.split_whitespace().collect();
    if toks.first() != Some(&"TW") {
        return None;
    }
    let num = |i: usize| -> Option<i64> { toks.get(i)?.parse().ok() };
    let cfg = Cfg { slots: num(1)? as u32, duration: num(2)? as u32, delta: num(3)? as u32 };
    let nsteps = num(5)? as usize;
    let mut i = 6;
    let mut steps = Vec::new();
    for _ in 0..nsteps {
        if i >= toks.len() {
            break;
        }
        let op = match toks[i] {
            "R" => {
                let o = AOp::Register(num(i + 1)? as u64);
                i += 2;
                o
            }
            "A" => {
                let o = AOp::Add {
                    signer: num(i + 1)?,
                    class: num(i + 2)? as u8,
                    loc: num(i + 3)? as u64,
                    key: num(i + 4)? as u64,
                    pay: num(i + 5)?,
                    len: num(i + 6)? as u64,
                    delay: num(i + 7)? as u32,
                    salt: num(i + 8)? as u64,
                };
                i += 9;
                o
            }
            "G" => {
                let o = AOp::Get { signer: num(i + 1)?, class: num(i + 2)? as u8, loc: num(i + 3)? as u64 };
                i += 4;
                o
            }
            "S" => {
                let o = AOp::GetSub { signer: num(i + 1)?, class: num(i + 2)? as u8 };
                i += 3;
                o
            }
            "C" => {
                let hash = num(i + 1)? as u64;
                let n = num(i + 2)? as usize;
                let txs = (0..n).map(|k| num(i + 3 + k).map(|x| x as u64)).collect::<Option<Vec<u64>>>()?;
                i += 3 + n;
                AOp::Connect { hash, txs }
            }
            "D" => {
                i += 1;
                AOp::Disconnect
            }
            _ => return None,
        };
        let ns = num(i)? as usize;
        i += 1;
        let mut script = Vec::new();
        for _ in 0..ns {
            script.push((num(i)? as u64, num(i + 1)? as u8, num(i + 2)? as i32));
            i += 3;
        }
        steps.push(AStep { op, script });
        // skip the observations up to and including ';'
        while i < toks.len() && toks[i] != ";" {
            i += 1;
        }
        i += 1;
    }
    Some(AHistory { cfg, steps })
}

// ---------------------------------------------------------------------------------------------

const SEND_CODES: [i32; 8] = [0, 0, 0, -27, -26, -25, -22, -1];

struct G<'a> {
    rng: &'a mut Rng,
    users: Vec<u64>,          // uids that have been registered at least once
    locs: Vec<u64>,           // dispute / locator universe
    next_pen: u64,
    next_hash: u64,
    next_noise: u64,
    /// appointments submitted: (user, loc, key, pay, len, delay)
    submitted: Vec<(u64, u64, u64, i64, u64, u32)>,
    /// penalties known per dispute
    pens: Vec<(u64, u64)>,
    /// txs mined on the active chain per block (for re-mining after a reorg and to avoid duplicates)
    chain_txs: Vec<Vec<u64>>,
    orphaned: Vec<Vec<u64>>,
    steps: Vec<AStep>,
}

impl<'a> G<'a> {
    fn mined(&self, tx: u64) -> bool {
        self.chain_txs.iter().any(|b| b.contains(&tx))
    }

    /// a penalty spends its dispute: it can only be mined after it (earlier on the active chain, or earlier in
    /// the same block).  Anything else is not a chain a Bitcoin node can present.
    fn can_mine(&self, tx: u64, block: &[u64]) -> bool {
        if self.mined(tx) || block.contains(&tx) {
            return false;
        }
        self.pens.iter().filter(|p| p.1 == tx).all(|p| self.mined(p.0) || block.contains(&p.0))
    }

    fn script_for(&mut self, txs: &[u64]) -> Script {
        let mut sc = Vec::new();
        for t in txs {
            if self.rng.chance(1, 2) {
                continue; // default answers (not found, ok)
            }
            let g = match self.rng.below(20) {
                0..=13 => 2u8,
                14..=16 => 0,
                17..=18 => 1,
                _ => 3,
            };
            let s = *self.rng.pick(&SEND_CODES);
            sc.push((*t, g, s));
        }
        sc
    }

    fn all_pens(&self) -> Vec<u64> {
        self.pens.iter().map(|p| p.1).collect()
    }

    fn signer(&mut self) -> (i64, u8) {
        let r = self.rng.below(100);
        if r < 82 && !self.users.is_empty() {
            (*self.rng.pick(&self.users) as i64, 0)
        } else if r < 88 {
            // proper signature by a key that never registered
            (50 + self.rng.below(2) as i64, 0)
        } else {
            (-1, 1 + self.rng.below(7) as u8)
        }
    }

    fn register(&mut self) {
        let u = if self.users.is_empty() || self.rng.chance(1, 3) { self.rng.below(4) } else { *self.rng.pick(&self.users) };
        if !self.users.contains(&u) {
            self.users.push(u);
        }
        self.steps.push(AStep { op: AOp::Register(u), script: vec![] });
    }

    fn len_choice(&mut self, garbage: bool) -> u64 {
        let r = self.rng.below(100);
        if garbage {
            match r {
                0..=14 => 0,
                15..=24 => 1,
                25..=44 => 100 + self.rng.below(200),
                45..=59 => 2047 + self.rng.below(3),
                60..=69 => 4095 + self.rng.below(3),
                70..=79 => 6143 + self.rng.below(3),
                _ => 30 + self.rng.below(3000),
            }
        } else {
            match r {
                0..=49 => 0, // minimal valid blob
                50..=64 => 2047 + self.rng.below(3),
                65..=74 => 4095 + self.rng.below(3),
                75..=79 => 6143 + self.rng.below(3),
                _ => 100 + self.rng.below(5000),
            }
        }
    }

    fn add(&mut self) {
        let (signer, class) = self.signer();
        // resubmit / update an earlier appointment of that user?
        let mine: Vec<(u64, u64, u64, i64, u64, u32)> =
            self.submitted.iter().filter(|s| s.0 as i64 == signer).cloned().collect();
        let r = self.rng.below(100);
        let (loc, key, pay, len, delay, salt);
        if !mine.is_empty() && r < 22 {
            // identical resubmission - or, one time in three, the same blob with ONLY the delay changed
            let s = self.rng.pick(&mine).clone();
            loc = s.1;
            key = s.2;
            pay = s.3;
            len = s.4;
            delay = if self.rng.chance(1, 3) { s.5.wrapping_add(1 + self.rng.below(1000) as u32) } else { s.5 };
            salt = 0;
        } else {
            loc = if !mine.is_empty() && r < 40 { self.rng.pick(&mine).1 } else { *self.rng.pick(&self.locs.clone()) };
            let kind = self.rng.below(100);
            if kind < 68 {
                key = loc;
                // a fresh penalty, or one already known for this dispute (two users, same penalty)
                let known: Vec<u64> = self.pens.iter().filter(|p| p.0 == loc).map(|p| p.1).collect();
                pay = if !known.is_empty() && self.rng.chance(1, 3) {
                    *self.rng.pick(&known) as i64
                } else {
                    self.next_pen += 1;
                    self.pens.push((loc, self.next_pen));
                    self.next_pen as i64
                };
                len = self.len_choice(false);
            } else if kind < 78 {
                // valid blob, but encrypted under another transaction id than the locator's
                key = loc + 40;
                self.next_pen += 1;
                pay = self.next_pen as i64;
                len = self.len_choice(false);
            } else {
                key = loc;
                pay = -1;
                len = self.len_choice(true);
            }
            delay = match self.rng.below(6) {
                0 => 0,
                1 => u32::MAX,
                _ => self.rng.below(2000) as u32,
            };
            salt = self.rng.below(1 << 20);
        }
        if signer >= 0 {
            self.submitted.push((signer as u64, loc, key, pay, len, delay));
        }
        // a late appointment may go straight to the responder: script for its penalty
        let mut sc_txs = vec![];
        if pay >= 0 {
            sc_txs.push(pay as u64);
        }
        let script = self.script_for(&sc_txs);
        self.steps.push(AStep { op: AOp::Add { signer, class, loc, key, pay, len, delay, salt }, script });
    }

    fn get(&mut self) {
        let (signer, class) = self.signer();
        if self.rng.chance(1, 3) {
            self.steps.push(AStep { op: AOp::GetSub { signer, class }, script: vec![] });
        } else {
            let mine: Vec<u64> = self.submitted.iter().filter(|s| s.0 as i64 == signer).map(|s| s.1).collect();
            let loc = if !mine.is_empty() && self.rng.chance(3, 4) { *self.rng.pick(&mine) } else { *self.rng.pick(&self.locs.clone()) };
            self.steps.push(AStep { op: AOp::Get { signer, class, loc }, script: vec![] });
        }
    }

    fn connect(&mut self, quiet: bool) {
        let mut txs: Vec<u64> = Vec::new();
        if !quiet {
            // re-mine an orphaned block's transactions?
            if !self.orphaned.is_empty() && self.rng.chance(1, 2) {
                let o = self.orphaned.pop().unwrap();
                for t in o {
                    if self.can_mine(t, &txs) && self.rng.chance(4, 5) {
                        txs.push(t);
                    }
                }
            }
            let nd = match self.rng.below(10) {
                0..=3 => 0,
                4..=7 => 1,
                8 => 2,
                _ => 3,
            };
            for _ in 0..nd {
                // prefer disputes for which something was submitted
                let cands: Vec<u64> = self.submitted.iter().map(|s| s.1).collect();
                let d = if !cands.is_empty() && self.rng.chance(3, 4) { *self.rng.pick(&cands) } else { *self.rng.pick(&self.locs.clone()) };
                if !self.mined(d) && !txs.contains(&d) {
                    txs.push(d);
                    // its penalty in the same block?
                    let known: Vec<u64> = self.pens.iter().filter(|p| p.0 == d).map(|p| p.1).collect();
                    if !known.is_empty() && self.rng.chance(1, 5) {
                        let p = *self.rng.pick(&known);
                        if self.can_mine(p, &txs) {
                            txs.push(p);
                        }
                    }
                }
            }
            // confirm a penalty of an earlier breach
            let pens = self.all_pens();
            if !pens.is_empty() && self.rng.chance(1, 3) {
                let p = *self.rng.pick(&pens);
                if self.can_mine(p, &txs) {
                    txs.push(p);
                }
            }
            if self.rng.chance(1, 4) {
                self.next_noise += 1;
                txs.push(self.next_noise);
            }
        }
        self.next_hash += 1;
        // answers for everything the tower may submit in this block
        let mut sc_txs: Vec<u64> = self.all_pens();
        sc_txs.extend(self.locs.clone());
        let script = if quiet && self.rng.chance(2, 3) { vec![] } else { self.script_for(&sc_txs) };
        self.chain_txs.push(txs.clone());
        self.steps.push(AStep { op: AOp::Connect { hash: self.next_hash, txs }, script });
    }

    /// a block with exactly these transactions (those not mined yet), default node answers
    fn connect_with(&mut self, want: &[u64], script: Script) {
        let mut txs: Vec<u64> = Vec::new();
        for t in want {
            if self.can_mine(*t, &txs) {
                txs.push(*t);
            }
        }
        self.next_hash += 1;
        self.chain_txs.push(txs.clone());
        self.steps.push(AStep { op: AOp::Connect { hash: self.next_hash, txs }, script });
    }

    /// a valid appointment of `u` on `loc` with a fresh (or, sometimes, an already known) penalty
    fn add_valid(&mut self, u: u64, loc: u64) {
        let known: Vec<u64> = self.pens.iter().filter(|p| p.0 == loc).map(|p| p.1).collect();
        let pay = if !known.is_empty() && self.rng.chance(1, 4) {
            *self.rng.pick(&known) as i64
        } else {
            self.next_pen += 1;
            self.pens.push((loc, self.next_pen));
            self.next_pen as i64
        };
        let len = self.len_choice(false);
        let delay = self.rng.below(2000) as u32;
        let salt = self.rng.below(1 << 20);
        self.submitted.push((u, loc, loc, pay, len, delay));
        self.steps.push(AStep { op: AOp::Add { signer: u as i64, class: 0, loc, key: loc, pay, len, delay, salt }, script: vec![] });
    }

    fn disconnect(&mut self) {
        if self.chain_txs.is_empty() {
            return;
        }
        let o = self.chain_txs.pop().unwrap();
        self.orphaned.push(o);
        self.steps.push(AStep { op: AOp::Disconnect, script: vec![] });
    }
}

pub fn generate(rng: &mut Rng, profile: &str, index: u64) -> AHistory {
    // configurations: boundary values and production-like ones
    let mut slots = *rng.pick(&[0u32, 1, 2, 3, 5, 8, 21, 21, 100]);
    if rng.chance(1, 25) {
        // a second registration overflows the slot counter: "maximum slots reached", nothing may change
        // (u32::MAX keeps every balance representable: granted totals above u32::MAX wrap - a recorded
        // finding replayed from corpus/tower - and are kept out of the random histories)
        slots = *rng.pick(&[u32::MAX, u32::MAX - 1]);
    }
    let duration = *rng.pick(&[0u32, 1, 2, 3, 5, 8, 15, 30, 30, 200]);
    let delta = *rng.pick(&[0u32, 0, 1, 2, 3, 6]);
    let cfg = Cfg { slots, duration, delta };
    let nlocs = 2 + rng.below(4);
    let mut g = G {
        rng,
        users: vec![],
        locs: (1..=nlocs).collect(),
        next_pen: 100,
        next_hash: 2000,
        next_noise: 500,
        submitted: vec![],
        pens: vec![],
        chain_txs: vec![],
        orphaned: vec![],
        steps: vec![],
    };
    // "complete": several responses of the same user(s) confirmed together and walked to completion
    // (batch refunds, completion next to purges and renewals) - subscriptions long enough to get there
    if profile == "complete" || (profile == "mixed" && index % 10 == 4) {
        g.users.clear();
        let slots = *g.rng.pick(&[8u32, 21, 21, 100]);
        let duration = *g.rng.pick(&[120u32, 200, 200, 500]);
        let cfg = Cfg { slots, duration, delta };
        // one time in four: MANY appointments of one user (more than ten rows in one breach batch / refund batch)
        let many = g.rng.chance(1, 4);
        g.locs = if many { (1..=16).collect() } else { (1..=(4 + g.rng.below(3))).collect() };
        let nu = if many { 1 } else { 1 + g.rng.below(2) };
        let (slots, cfg) = if many { (100u32, Cfg { slots: 100, duration, delta }) } else { (slots, cfg) };
        let _ = slots;
        for u in 0..nu {
            g.users.push(u);
            g.steps.push(AStep { op: AOp::Register(u), script: vec![] });
            if g.rng.chance(1, 3) {
                g.steps.push(AStep { op: AOp::Register(u), script: vec![] });
            }
        }
        let mut disputes: Vec<u64> = vec![];
        for u in 0..nu {
            let k = if many { 11 + g.rng.below(5) } else { 2 + g.rng.below(3) };
            let mut locs = g.locs.clone();
            for _ in 0..k {
                if locs.is_empty() {
                    break;
                }
                let i = g.rng.below(locs.len() as u64) as usize;
                let loc = locs.remove(i);
                g.add_valid(u, loc);
                if !disputes.contains(&loc) {
                    disputes.push(loc);
                }
            }
        }
        for _ in 0..g.rng.below(4) {
            if g.rng.chance(1, 2) {
                g.add();
            } else {
                g.get();
            }
        }
        // the disputes: all in one block, or spread over two
        if g.rng.chance(2, 3) {
            g.connect_with(&disputes, vec![]);
        } else {
            let cut = 1 + g.rng.below(disputes.len() as u64) as usize;
            g.connect_with(&disputes[..cut.min(disputes.len())], vec![]);
            g.connect_with(&disputes[cut.min(disputes.len())..], vec![]);
        }
        g.get();
        // the penalties: confirmed together (same height), or in two consecutive blocks
        let pens = g.all_pens();
        if g.rng.chance(2, 3) {
            g.connect_with(&pens, vec![]);
        } else {
            let cut = g.rng.below(pens.len() as u64 + 1) as usize;
            g.connect_with(&pens[..cut], vec![]);
            g.connect_with(&pens[cut..], vec![]);
        }
        // sometimes a reorg of the confirming block(s), re-mined at once or a block later
        if g.rng.chance(1, 4) {
            let d = 1 + g.rng.below(2);
            for _ in 0..d {
                g.disconnect();
            }
            if g.rng.chance(1, 2) {
                g.connect(true);
            }
            g.connect_with(&pens, vec![]);
            for _ in 0..d {
                g.connect(true);
            }
        }
        let n = 99 + g.rng.below(8);
        for i in 0..n {
            let sc = if g.rng.chance(5, 6) { vec![] } else { let t = g.all_pens(); g.script_for(&t) };
            g.connect_with(&[], sc);
            if i % 23 == 7 {
                g.get();
            }
            if i == 50 && g.rng.chance(1, 3) {
                g.register();
            }
        }
        g.get();
        g.steps.push(AStep { op: AOp::GetSub { signer: 0, class: 0 }, script: vec![] });
        g.add();
        g.connect(false);
        return AHistory { cfg, steps: g.steps };
    }
    let deep = profile == "deep" || (profile == "mixed" && index % 10 == 9);
    let target = if deep { 30 + g.rng.below(30) } else { 12 + g.rng.below(50) } as usize;
    // sometimes the tower sees blocks before its first user
    if g.rng.chance(1, 4) {
        for _ in 0..(1 + g.rng.below(3)) {
            g.connect(true);
        }
    }
    g.register();
    while g.steps.len() < target {
        let r = g.rng.below(100);
        if r < 12 {
            g.register();
        } else if r < 48 {
            g.add();
        } else if r < 62 {
            g.get();
        } else if r < 90 {
            g.connect(false);
        } else {
            // a reorg: d disconnections, then usually at least d connections
            // mostly shallow; sometimes deeper than the watcher's 6-block cache
            let d = if g.rng.chance(1, 6) { 4 + g.rng.below(6) } else { 1 + g.rng.below(3) };
            for _ in 0..d {
                g.disconnect();
            }
            // requests served in the middle of the reorg
            if g.rng.chance(1, 2) {
                g.add();
            }
            if g.rng.chance(1, 3) {
                g.get();
            }
            let c = if g.rng.chance(4, 5) { d + g.rng.below(2) } else { g.rng.below(d) };
            for _ in 0..c {
                g.connect(false);
            }
        }
    }
    if deep {
        // walk through more than 100 further blocks: completion at 100 confirmations, rebroadcast cadence
        let n = 101 + g.rng.below(12);
        for i in 0..n {
            let quiet = !(i % 17 == 5);
            g.connect(quiet);
            if i % 29 == 11 {
                g.get();
            }
        }
        g.get();
        g.add();
    }
    AHistory { cfg, steps: g.steps }
}
