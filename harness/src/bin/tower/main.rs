//! Tower histories: generates interleaved histories of registrations, appointments, reads, block
//! connections / disconnections with scripted node answers, runs them on the REAL tower and writes
//! one line per history: `TW cfg.. h0 nsteps { <op tokens> | <obs tokens> ; }*`.
//! Usage: tower gen <out-file> <shard> <nshards>   |   tower replay <case-file> <out-file>
use std::io::Write;
use std::path::PathBuf;

use verif_harness::rng::Rng;
use verif_harness::world::{initial_chain, World, INIT_HEIGHT};
use verif_harness::{env_u64, Line};

mod gen;

/// histories in which an operation never returned (each costs a full step time-out: two are evidence enough)
static HANGS: std::sync::atomic::AtomicU32 = std::sync::atomic::AtomicU32::new(0);

fn work_dir(tag: &str) -> PathBuf {
    let base = if std::path::Path::new("/dev/shm").is_dir() { PathBuf::from("/dev/shm") } else { std::env::temp_dir() };
    base.join(format!("verif-tower-{}-{}", std::process::id(), tag))
}

fn listener_order() -> Vec<u8> {
    std::env::var("VERIF_LISTENER_ORDER")
        .ok()
        .map(|s| s.split(',').filter_map(|x| x.trim().parse().ok()).collect())
        .filter(|v: &Vec<u8>| !v.is_empty())
        .unwrap_or_else(|| vec![0, 1, 2])
}

/// Runs one abstract history on the real tower and renders the line.
pub fn run_history(h: &gen::AHistory, init: &[(u64, bitcoin::Block)], dir: PathBuf, rec: &verif_harness::locks::Recorder) -> String {
    let mut w = World::new(h.cfg, dir.clone(), init, listener_order());
    w.watch_hangs = true;
    // two histories in five run with SQLite's bound-variable limit lowered to 10 / 11 (the widest ordinary statement
    // binds 7): same semantics, but IN (...) lists of more than ten rows take the multi-chunk paths
    match h.steps.len() % 5 {
        0 => w.set_sql_variable_limit(10),
        1 => w.set_sql_variable_limit(11),
        _ => {}
    }
    rec.take_edges();
    let mut line = Line::new();
    line.tok("TW").tok(h.cfg.slots).tok(h.cfg.duration).tok(h.cfg.delta).tok(INIT_HEIGHT).tok(h.steps.len());
    for st in &h.steps {
        // materialise the abstract step (blobs need real bytes, whose true length goes on the line)
        let op = gen::materialise(&mut w, st);
        gen::op_tokens(&w, &op, &st.script, &mut line);
        line.tok("|");
        let ok = w.exec(&op, &st.script, &mut line);
        line.tok("|");
        w.rpc_tokens(&mut line);
        // lock-order edges (held -> requested) of this step, through hook H3
        let edges = rec.take_edges();
        line.tok("|").tok(edges.len());
        for (a, b) in &edges {
            line.tok(a).tok(b);
        }
        if !ok {
            rec.reset_thread();
            // a handler that never returned holds its locks for ever: do not probe (the probe would hang too)
            let alive = if w.hung { false } else { w.alive() };
            rec.take_edges();
            line.tok("|").tok("alive").tok(alive as u8).tok(";");
            break;
        }
        line.tok("|");
        w.state_tokens(&mut line);
        rec.take_edges();
        line.tok(";");
    }
    if w.hung {
        HANGS.fetch_add(1, std::sync::atomic::Ordering::SeqCst);
        // the stuck thread still owns the components: leave them alone
        std::mem::forget(w);
    } else {
        drop(w);
    }
    let _ = std::fs::remove_dir_all(&dir);
    line.0
}

fn main() {
    let args: Vec<String> = std::env::args().collect();
    if args.len() < 3 {
        eprintln!("usage: tower gen <out> <shard> <nshards> | tower replay <cases> <out>");
        std::process::exit(2);
    }
    verif_harness::install_panic_hook();
    verif_harness::install_null_logger();
    let init = initial_chain();
    let rec = verif_harness::locks::Recorder::install();
    match args[1].as_str() {
        "gen" => {
            let shard: u64 = args.get(3).and_then(|s| s.parse().ok()).unwrap_or(0);
            let nshards: u64 = args.get(4).and_then(|s| s.parse().ok()).unwrap_or(1);
            let seed = env_u64("VERIF_SEED", 0);
            let thorough = std::env::var("VERIF_TIER").map(|t| t == "thorough").unwrap_or(false);
            let profile = std::env::var("VERIF_PROFILE").unwrap_or_else(|_| "mixed".into());
            let total: u64 = env_u64("VERIF_CASES", if thorough { 6000 } else { 800 });
            let mut out = std::io::BufWriter::new(std::fs::File::create(&args[2]).unwrap());
            let dir = work_dir(&format!("{shard}"));
            for i in 0..total {
                if i % nshards != shard {
                    continue;
                }
                let mut rng = Rng::new(seed ^ (i.wrapping_mul(0x9E37_79B9)) ^ 0x70FE);
                let h = gen::generate(&mut rng, &profile, i);
                let l = run_history(&h, &init, dir.clone(), &rec);
                writeln!(out, "{l}").unwrap();
                if HANGS.load(std::sync::atomic::Ordering::SeqCst) >= 2 {
                    break;
                }
            }
            out.flush().unwrap();
        }
        "replay" => {
            let text = std::fs::read_to_string(&args[2]).unwrap();
            let mut out = std::io::BufWriter::new(std::fs::File::create(&args[3]).unwrap());
            let dir = work_dir("replay");
            for l in text.lines() {
                if let Some(h) = gen::parse_history(l) {
                    let l = run_history(&h, &init, dir.clone(), &rec);
                    writeln!(out, "{l}").unwrap();
                }
            }
            out.flush().unwrap();
        }
        _ => std::process::exit(2),
    }
}
