//! C15 — every HTTP request gets a documented answer; bad ones change nothing.
//!
//! A raw-TCP HTTP client against the REAL public API: `teos::api::http::serve` (the warp router, the
//! four handlers, body caps, `handle_rejection`, `parse_grpc_response` / `match_status`) talking gRPC
//! (tonic, as teosd's main.rs wires it) to the REAL tower stack of `verif_harness::world` (InternalAPI,
//! Watcher, Gatekeeper, Responder, Carrier on a sqlite file, in-process simulated bitcoind).  Between
//! the gRPC server and the real `Arc<InternalAPI>` sits a pass-through implementation of
//! `PublicTowerServices` written here that only records: which method was entered with which field
//! lengths, and the tonic code the real method returned.
//!
//! One line per case:
//!   HTTP <scenario> <label> <kind> <method> <target-hex> <ctype> <len-mode> <body-hex|-> OBS <observations>
//!   SOCK <scenario> <kind> <bytes-hex> OBS <observations>
//! The scenario names a deterministic preparation of the tower (see `Scen`); a tower whose sqlite dump
//! changed (or that panicked) is rebuilt before its next case, so every case runs on exactly the
//! state its scenario describes and can be replayed alone.
//!
//! usage: http run <out> <scratch-dir>      (VERIF_SEED, VERIF_TIER, VERIF_HTTP_SHARD=i/n, VERIF_HTTP_CASES=n)
//!        http replay <cases> <out> <scratch-dir>
mod gen;

use std::collections::HashMap;
use std::io::{Read, Write};
use std::net::{SocketAddr, TcpStream};
use std::path::PathBuf;
use std::sync::{Arc, Mutex};
use std::time::{Duration, Instant};

use bitcoin::hashes::{sha256, Hash};
use tonic::{Request, Response, Status};

use teos::api::internal::InternalAPI;
use teos::protos::public_tower_services_server::{PublicTowerServices, PublicTowerServicesServer};
use teos_common::protos as msgs;

use verif_harness::rng::Rng;
use verif_harness::world::{initial_chain, Cfg, Op, World};
use verif_harness::{env_u64, Line};

// ---------------------------------------------------------------------------------------------
// the recording pass-through in front of the real internal API
// ---------------------------------------------------------------------------------------------
#[derive(Default, Clone)]
pub struct RecLog {
    /// method index (0 register, 1 add_appointment, 2 get_appointment, 3 get_subscription_info) and the
    /// lengths of the request's fields (field id, length) as the internal API receives them
    pub entered: Option<(usize, Vec<(u8, usize)>)>,
    /// tonic code of the reply (0 = Ok); None while the method has not returned
    pub returned: Option<i32>,
}

pub struct Rec {
    inner: Arc<Mutex<Option<Arc<InternalAPI>>>>,
    log: Arc<Mutex<RecLog>>,
}

impl Rec {
    fn enter(&self, idx: usize, lens: Vec<(u8, usize)>) -> Result<Arc<InternalAPI>, Status> {
        let mut l = self.log.lock().unwrap();
        l.entered = Some((idx, lens));
        l.returned = None;
        self.inner.lock().unwrap().clone().ok_or_else(|| Status::internal("harness: no tower installed"))
    }
    fn leave<T>(&self, r: &Result<Response<T>, Status>) {
        self.log.lock().unwrap().returned = Some(match r {
            Ok(_) => 0,
            Err(s) => s.code() as i32,
        });
    }
}

// field ids shared with coq/extraction/drv_http.ml (HttpBase.hfield)
pub const F_USER_ID: u8 = 0;
pub const F_APPOINTMENT: u8 = 1;
pub const F_APP_LOCATOR: u8 = 2;
pub const F_APP_BLOB: u8 = 3;
pub const F_APP_DELAY: u8 = 4;
pub const F_SIGNATURE: u8 = 5;
pub const F_LOCATOR: u8 = 6;

fn lens_register(r: &msgs::RegisterRequest) -> Vec<(u8, usize)> {
    vec![(F_USER_ID, r.user_id.len())]
}
fn lens_add(r: &msgs::AddAppointmentRequest) -> Vec<(u8, usize)> {
    let mut v = Vec::new();
    if let Some(a) = &r.appointment {
        v.push((F_APPOINTMENT, 1));
        v.push((F_APP_LOCATOR, a.locator.len()));
        v.push((F_APP_BLOB, a.encrypted_blob.len()));
        v.push((F_APP_DELAY, 4));
    }
    v.push((F_SIGNATURE, r.signature.len()));
    v
}
fn lens_get(r: &msgs::GetAppointmentRequest) -> Vec<(u8, usize)> {
    vec![(F_LOCATOR, r.locator.len()), (F_SIGNATURE, r.signature.len())]
}
fn lens_getsub(r: &msgs::GetSubscriptionInfoRequest) -> Vec<(u8, usize)> {
    vec![(F_SIGNATURE, r.signature.len())]
}

#[tonic::async_trait]
impl PublicTowerServices for Rec {
    async fn register(&self, request: Request<msgs::RegisterRequest>) -> Result<Response<msgs::RegisterResponse>, Status> {
        let api = self.enter(0, lens_register(request.get_ref()))?;
        let r = api.register(request).await;
        self.leave(&r);
        r
    }
    async fn add_appointment(&self, request: Request<msgs::AddAppointmentRequest>) -> Result<Response<msgs::AddAppointmentResponse>, Status> {
        let api = self.enter(1, lens_add(request.get_ref()))?;
        let r = api.add_appointment(request).await;
        self.leave(&r);
        r
    }
    async fn get_appointment(&self, request: Request<msgs::GetAppointmentRequest>) -> Result<Response<msgs::GetAppointmentResponse>, Status> {
        let api = self.enter(2, lens_get(request.get_ref()))?;
        let r = api.get_appointment(request).await;
        self.leave(&r);
        r
    }
    async fn get_subscription_info(
        &self,
        request: Request<msgs::GetSubscriptionInfoRequest>,
    ) -> Result<Response<msgs::GetSubscriptionInfoResponse>, Status> {
        let api = self.enter(3, lens_getsub(request.get_ref()))?;
        let r = api.get_subscription_info(request).await;
        self.leave(&r);
        r
    }
}

// ---------------------------------------------------------------------------------------------
// scenarios: deterministic preparations of the tower
// ---------------------------------------------------------------------------------------------
pub const SCENARIOS: [&str; 7] = ["fresh", "reg", "expired", "noslots", "triggered", "down", "maxslots"];
/// the appointment every prepared scenario (but `fresh`) holds: user 1, locator id 10
pub const LOC_HELD: u64 = 10;

#[derive(Clone, Debug)]
pub struct Scen {
    pub name: &'static str,
    pub cfg: Cfg,
    pub registered: Vec<u64>,
    pub expired: bool,
    pub reachable: bool,
    pub no_slots: bool,
    pub max_slots: bool,
    pub triggered: bool,
}

pub fn scenario(name: &str) -> Option<Scen> {
    let std = Cfg { slots: 100, duration: 500, delta: 20 };
    let base = Scen { name: "fresh", cfg: std, registered: vec![], expired: false, reachable: true, no_slots: false, max_slots: false, triggered: false };
    Some(match name {
        "fresh" => base,
        "reg" => Scen { name: "reg", registered: vec![1, 2], ..base },
        "expired" => Scen { name: "expired", cfg: Cfg { slots: 100, duration: 3, delta: 50 }, registered: vec![1], expired: true, ..base },
        "noslots" => Scen { name: "noslots", cfg: Cfg { slots: 1, duration: 500, delta: 20 }, registered: vec![1], no_slots: true, ..base },
        "triggered" => Scen { name: "triggered", registered: vec![1, 2], triggered: true, ..base },
        "down" => Scen { name: "down", registered: vec![1, 2], reachable: false, ..base },
        "maxslots" => Scen { name: "maxslots", cfg: Cfg { slots: 4_000_000_000, duration: 500, delta: 20 }, registered: vec![1], max_slots: true, ..base },
        _ => return None,
    })
}

fn listener_order() -> Vec<u8> {
    std::env::var("VERIF_LISTENER_ORDER")
        .ok()
        .map(|s| s.split(',').filter_map(|x| x.trim().parse().ok()).collect())
        .filter(|v: &Vec<u8>| !v.is_empty())
        .unwrap_or_else(|| vec![0, 1, 2])
}

/// builds the tower of a scenario (direct calls on the real internal API, no HTTP)
fn prepare(sc: &Scen, dir: PathBuf, init: &[(u64, bitcoin::Block)]) -> World {
    let mut w = World::new(sc.cfg, dir, init, listener_order());
    let mut sink = Line::new();
    let script = Vec::new();
    for u in &sc.registered {
        w.exec(&Op::Register(*u), &script, &mut sink);
    }
    if !sc.registered.is_empty() {
        // user 1 holds an appointment for locator 10 whose blob decrypts (under dispute 10) to penalty 1010
        let blob = w.make_blob(LOC_HELD, 1000 + LOC_HELD as i64, 150, 0);
        w.exec(&Op::Add { signer: 1, class: 0, loc: LOC_HELD, blob, delay: 42 }, &script, &mut sink);
    }
    if sc.expired {
        for i in 0..4u64 {
            w.exec(&Op::Connect { hash: 5000 + i, txs: vec![] }, &script, &mut sink);
        }
    }
    if sc.triggered {
        w.exec(&Op::Connect { hash: 6000, txs: vec![LOC_HELD] }, &script, &mut sink);
    }
    if !sc.reachable {
        *w.reachable.0.lock().unwrap() = false;
    }
    w
}

/// hash of a dump of every table of the tower's sqlite file (rows sorted) AND of the tower's memory as the
/// private API shows it (the gatekeeper's users: slots, expiry) - a refused request must change neither
fn db_hash(w: &mut World) -> String {
    let mut names: Vec<String> = Vec::new();
    {
        let mut stmt = w.reader.prepare("SELECT name FROM sqlite_master WHERE type = 'table' ORDER BY name").unwrap();
        let mut rows = stmt.query([]).unwrap();
        while let Ok(Some(row)) = rows.next() {
            names.push(row.get::<_, String>(0).unwrap());
        }
    }
    let mut eng = sha256::Hash::engine();
    use bitcoin::hashes::HashEngine;
    for t in names {
        eng.input(t.as_bytes());
        let mut dump: Vec<Vec<u8>> = Vec::new();
        let mut stmt = w.reader.prepare(&format!("SELECT * FROM \"{t}\"")).unwrap();
        let ncol = stmt.column_count();
        let mut rows = stmt.query([]).unwrap();
        while let Ok(Some(row)) = rows.next() {
            let mut r: Vec<u8> = Vec::new();
            for i in 0..ncol {
                use rusqlite::types::ValueRef;
                match row.get_ref(i).unwrap() {
                    ValueRef::Null => r.extend_from_slice(b"N;"),
                    ValueRef::Integer(x) => r.extend_from_slice(format!("I{x};").as_bytes()),
                    ValueRef::Real(x) => r.extend_from_slice(format!("R{x};").as_bytes()),
                    ValueRef::Text(x) => {
                        r.extend_from_slice(format!("T{}:", x.len()).as_bytes());
                        r.extend_from_slice(x);
                    }
                    ValueRef::Blob(x) => {
                        r.extend_from_slice(format!("B{}:", x.len()).as_bytes());
                        r.extend_from_slice(x);
                    }
                }
            }
            dump.push(r);
        }
        dump.sort();
        for r in dump {
            eng.input(&(r.len() as u64).to_le_bytes());
            eng.input(&r);
        }
    }
    let mut mem = verif_harness::Line::new();
    w.state_tokens(&mut mem);
    eng.input(mem.0.as_bytes());
    hex::encode(&sha256::Hash::from_engine(eng).to_byte_array()[..8])
}

// ---------------------------------------------------------------------------------------------
// environment: servers (once per process) + one prepared tower per scenario
// ---------------------------------------------------------------------------------------------
struct Prepared {
    world: World,
    hash: String,
}

struct Env {
    _rt: tokio::runtime::Runtime,
    http_addr: SocketAddr,
    inner: Arc<Mutex<Option<Arc<InternalAPI>>>>,
    log: Arc<Mutex<RecLog>>,
    scratch: PathBuf,
    init: Vec<(u64, bitcoin::Block)>,
    towers: HashMap<String, Prepared>,
    builds: u64,
}

fn free_port() -> u16 {
    std::net::TcpListener::bind("127.0.0.1:0").unwrap().local_addr().unwrap().port()
}

impl Env {
    fn start(scratch: PathBuf) -> Env {
        let rt = tokio::runtime::Builder::new_multi_thread().worker_threads(3).enable_all().build().unwrap();
        let inner: Arc<Mutex<Option<Arc<InternalAPI>>>> = Arc::new(Mutex::new(None));
        let log = Arc::new(Mutex::new(RecLog::default()));
        let rec = Rec { inner: inner.clone(), log: log.clone() };
        // the gRPC listener is bound here (port 0) and handed to tonic: no window in which another process could take the port
        let listener = rt.block_on(async { tokio::net::TcpListener::bind("127.0.0.1:0").await }).expect("bind gRPC listener");
        let grpc_addr = listener.local_addr().unwrap();
        rt.spawn(async move {
            let incoming = tonic::transport::server::TcpIncoming::from_listener(listener, true, None).expect("gRPC incoming");
            tonic::transport::Server::builder().add_service(PublicTowerServicesServer::new(rec)).serve_with_incoming(incoming).await.expect("gRPC server");
        });
        // http::serve binds its own address: when the port picked was taken in the meantime (16 harnesses start together) its task
        // dies on the bind and `ready` never fires - pick another port
        let mut http_addr: SocketAddr = format!("127.0.0.1:{}", free_port()).parse().unwrap();
        let mut up = false;
        for _attempt in 0..20 {
            let (ready_trigger, ready) = triggered::trigger();
            let (shutdown_trigger, shutdown) = triggered::trigger();
            std::mem::forget(shutdown_trigger); // the API runs until the process exits
            rt.spawn(teos::api::http::serve(http_addr, grpc_addr, ready_trigger, shutdown));
            let ok = rt.block_on(async { tokio::time::timeout(Duration::from_secs(8), ready).await.is_ok() });
            // `ready` fires just before the server future is polled: make sure it really is this process that listens
            if ok && (0..200).any(|_| {
                std::thread::sleep(Duration::from_millis(5));
                let r = exchange(http_addr, b"GET /ping HTTP/1.1\r\nHost: tower\r\nConnection: close\r\n\r\n", false);
                r.status == 200
            }) {
                up = true;
                break;
            }
            http_addr = format!("127.0.0.1:{}", free_port()).parse().unwrap();
        }
        if !up {
            eprintln!("http harness: cannot start the HTTP API");
            std::process::exit(3);
        }
        let _ = verif_harness::LAST_PANIC.lock().map(|mut g| g.take());
        let _ = std::fs::create_dir_all(&scratch);
        Env { _rt: rt, http_addr, inner, log, scratch, init: initial_chain(), towers: HashMap::new(), builds: 0 }
    }

    /// installs the (clean) tower of the scenario behind the servers; returns its dump hash
    fn select(&mut self, sc: &Scen) -> String {
        if !self.towers.contains_key(sc.name) {
            let dir = self.scratch.join(sc.name);
            let mut world = prepare(sc, dir, &self.init);
            let hash = db_hash(&mut world);
            self.builds += 1;
            self.towers.insert(sc.name.to_string(), Prepared { world, hash });
        }
        let p = &self.towers[sc.name];
        *self.inner.lock().unwrap() = Some(p.world.api.clone());
        p.hash.clone()
    }

    fn discard(&mut self, name: &str) {
        *self.inner.lock().unwrap() = None;
        self.towers.remove(name);
    }
}

// ---------------------------------------------------------------------------------------------
// raw HTTP
// ---------------------------------------------------------------------------------------------
pub struct HttpReply {
    pub status: i32, // -1: connection closed without a status line; -2: timeout
    pub content_type: String,
    pub body: Vec<u8>,
}

const TIMEOUT: Duration = Duration::from_secs(20);

fn exchange(addr: SocketAddr, bytes: &[u8], head_only: bool) -> HttpReply {
    let none = |status| HttpReply { status, content_type: String::new(), body: vec![] };
    let mut s = match TcpStream::connect_timeout(&addr, TIMEOUT) {
        Ok(s) => s,
        Err(_) => return none(-1),
    };
    let _ = s.set_read_timeout(Some(TIMEOUT));
    let _ = s.set_write_timeout(Some(TIMEOUT));
    let _ = s.set_nodelay(true);
    // the server may answer (and close) before it has read everything: a failed write is not an error here
    let _ = s.write_all(bytes);
    let _ = s.flush();
    let mut buf: Vec<u8> = Vec::new();
    let mut tmp = [0u8; 8192];
    let mut timed_out = false;
    let deadline = Instant::now() + TIMEOUT;
    loop {
        // stop as soon as one complete response is in
        if let Some(r) = parse_response(&buf, head_only) {
            return r;
        }
        match s.read(&mut tmp) {
            Ok(0) => break,
            Ok(n) => buf.extend_from_slice(&tmp[..n]),
            Err(e) => {
                if matches!(e.kind(), std::io::ErrorKind::WouldBlock | std::io::ErrorKind::TimedOut) {
                    timed_out = true;
                }
                break;
            }
        }
        if Instant::now() > deadline {
            timed_out = true;
            break;
        }
    }
    match parse_response_eof(&buf, head_only) {
        Some(r) => r,
        None => none(if timed_out { -2 } else { -1 }),
    }
}

fn find(h: &[u8], n: &[u8]) -> Option<usize> {
    h.windows(n.len()).position(|w| w == n)
}

struct Head {
    status: i32,
    content_type: String,
    content_length: Option<usize>,
    chunked: bool,
    body_at: usize,
}

fn parse_head(buf: &[u8]) -> Option<Head> {
    let end = find(buf, b"\r\n\r\n")?;
    let head = String::from_utf8_lossy(&buf[..end]).to_string();
    let mut lines = head.split("\r\n");
    let status_line = lines.next()?;
    let mut parts = status_line.split(' ');
    let v = parts.next()?;
    if !v.starts_with("HTTP/") {
        return None;
    }
    let status: i32 = parts.next()?.parse().ok()?;
    let mut h = Head { status, content_type: String::new(), content_length: None, chunked: false, body_at: end + 4 };
    for l in lines {
        if let Some((k, v)) = l.split_once(':') {
            let k = k.trim().to_ascii_lowercase();
            let v = v.trim();
            match k.as_str() {
                "content-type" => h.content_type = v.to_ascii_lowercase(),
                "content-length" => h.content_length = v.parse().ok(),
                "transfer-encoding" => h.chunked = v.to_ascii_lowercase().contains("chunked"),
                _ => {}
            }
        }
    }
    Some(h)
}

fn dechunk(mut b: &[u8]) -> Option<Vec<u8>> {
    let mut out = Vec::new();
    loop {
        let e = find(b, b"\r\n")?;
        let n = usize::from_str_radix(String::from_utf8_lossy(&b[..e]).split(';').next()?.trim(), 16).ok()?;
        b = &b[e + 2..];
        if n == 0 {
            return Some(out);
        }
        if b.len() < n + 2 {
            return None;
        }
        out.extend_from_slice(&b[..n]);
        b = &b[n + 2..];
    }
}

fn parse_response(buf: &[u8], head_only: bool) -> Option<HttpReply> {
    let h = parse_head(buf)?;
    // interim responses (100 Continue) are skipped
    if (100..200).contains(&h.status) {
        return parse_response(&buf[h.body_at..], head_only);
    }
    let rest = &buf[h.body_at..];
    let body = if head_only || h.status == 204 || h.status == 304 {
        vec![]
    } else if h.chunked {
        dechunk(rest)?
    } else if let Some(n) = h.content_length {
        if rest.len() < n {
            return None;
        }
        rest[..n].to_vec()
    } else {
        return None; // body delimited by the end of the connection
    };
    Some(HttpReply { status: h.status, content_type: h.content_type, body })
}

fn parse_response_eof(buf: &[u8], head_only: bool) -> Option<HttpReply> {
    if let Some(r) = parse_response(buf, head_only) {
        return Some(r);
    }
    let h = parse_head(buf)?;
    if (100..200).contains(&h.status) {
        return parse_response_eof(&buf[h.body_at..], head_only);
    }
    Some(HttpReply { status: h.status, content_type: h.content_type, body: buf[h.body_at..].to_vec() })
}

// ---------------------------------------------------------------------------------------------
// cases
// ---------------------------------------------------------------------------------------------
#[derive(Clone, Debug)]
pub enum LenMode {
    Exact,          // Content-Length: <actual>
    Absent,         // neither Content-Length nor Transfer-Encoding; no body bytes are sent
    Chunked,        // Transfer-Encoding: chunked
    Declared(usize), // Content-Length: n, the body bytes sent are still `body`
}

#[derive(Clone, Debug)]
pub struct Case {
    pub scen: String,
    pub label: String,
    pub kind: String,
    pub method: String,
    pub target: Vec<u8>,
    pub ctype: char,
    pub len: LenMode,
    pub body: Vec<u8>,
}

#[derive(Clone, Debug)]
pub struct SockCase {
    pub scen: String,
    pub kind: String,
    pub bytes: Vec<u8>,
}

pub fn ctype_header(c: char) -> Option<&'static str> {
    match c {
        'n' => None,
        'j' => Some("application/json"),
        'J' => Some("application/json; charset=utf-8"),
        'A' => Some("APPLICATION/JSON"),
        't' => Some("text/plain"),
        'f' => Some("application/x-www-form-urlencoded"),
        'p' => Some("application/vnd.api+json"),
        'x' => Some("@@"),
        _ => None,
    }
}
/// 0 absent, 1 application/json, 2 anything else (the class warp's is_content_type::<Json> distinguishes)
pub fn ctype_class(c: char) -> u8 {
    match c {
        'n' => 0,
        'j' | 'J' | 'A' => 1,
        _ => 2,
    }
}

fn hexs(b: &[u8]) -> String {
    if b.is_empty() {
        "-".into()
    } else {
        hex::encode(b)
    }
}
fn unhexs(s: &str) -> Option<Vec<u8>> {
    if s == "-" {
        Some(vec![])
    } else {
        hex::decode(s).ok()
    }
}

impl Case {
    fn line(&self) -> Line {
        let mut l = Line::new();
        let lm = match &self.len {
            LenMode::Exact => "c".to_string(),
            LenMode::Absent => "n".to_string(),
            LenMode::Chunked => "k".to_string(),
            LenMode::Declared(n) => format!("d{n}"),
        };
        l.tok("HTTP").tok(&self.scen).tok(&self.label).tok(&self.kind).tok(&self.method).tok(hexs(&self.target)).tok(self.ctype).tok(lm).tok(hexs(&self.body));
        l
    }

    fn parse(s: &str) -> Option<Case> {
        let t: Vec<&str> = s.split_whitespace().collect();
        if t.len() < 9 || t[0] != "HTTP" {
            return None;
        }
        let len = match t[7] {
            "c" => LenMode::Exact,
            "n" => LenMode::Absent,
            "k" => LenMode::Chunked,
            d if d.starts_with('d') => LenMode::Declared(d[1..].parse().ok()?),
            _ => return None,
        };
        Some(Case {
            scen: t[1].to_string(),
            label: t[2].to_string(),
            kind: t[3].to_string(),
            method: t[4].to_string(),
            target: unhexs(t[5])?,
            ctype: t[6].chars().next()?,
            len,
            body: unhexs(t[8])?,
        })
    }

    /// the bytes put on the socket
    fn wire(&self) -> Vec<u8> {
        let mut out: Vec<u8> = Vec::new();
        out.extend_from_slice(self.method.as_bytes());
        out.push(b' ');
        out.extend_from_slice(&self.target);
        out.extend_from_slice(b" HTTP/1.1\r\nHost: tower\r\nConnection: close\r\n");
        if let Some(ct) = ctype_header(self.ctype) {
            out.extend_from_slice(format!("Content-Type: {ct}\r\n").as_bytes());
        }
        match &self.len {
            LenMode::Exact => {
                out.extend_from_slice(format!("Content-Length: {}\r\n\r\n", self.body.len()).as_bytes());
                out.extend_from_slice(&self.body);
            }
            LenMode::Absent => out.extend_from_slice(b"\r\n"),
            LenMode::Chunked => {
                out.extend_from_slice(b"Transfer-Encoding: chunked\r\n\r\n");
                for ch in self.body.chunks(700) {
                    out.extend_from_slice(format!("{:x}\r\n", ch.len()).as_bytes());
                    out.extend_from_slice(ch);
                    out.extend_from_slice(b"\r\n");
                }
                out.extend_from_slice(b"0\r\n\r\n");
            }
            LenMode::Declared(n) => {
                out.extend_from_slice(format!("Content-Length: {n}\r\n\r\n").as_bytes());
                out.extend_from_slice(&self.body);
            }
        }
        out
    }

    /// the content-length header as the server sees it, and the bytes it takes for the body
    fn server_view(&self) -> (i64, Vec<u8>) {
        match &self.len {
            LenMode::Exact => (self.body.len() as i64, self.body.clone()),
            LenMode::Absent => (-1, vec![]),
            LenMode::Chunked => (-1, self.body.clone()),
            LenMode::Declared(n) => (*n as i64, self.body[..(*n).min(self.body.len())].to_vec()),
        }
    }
}

/// serde_json::from_slice::<T>(body) for the four request types: `E<hex of the message>` or `K<field:len,..>`
fn decode_classes(body: &[u8]) -> [String; 4] {
    fn fmt(r: Result<Vec<(u8, usize)>, serde_json::Error>) -> String {
        match r {
            Ok(v) => format!("K{}", if v.is_empty() { "-".to_string() } else { v.iter().map(|(f, l)| format!("{f}:{l}")).collect::<Vec<_>>().join(",") }),
            Err(e) => format!("E{}", hexs(e.to_string().as_bytes())),
        }
    }
    [
        fmt(serde_json::from_slice::<msgs::RegisterRequest>(body).map(|r| lens_register(&r))),
        fmt(serde_json::from_slice::<msgs::AddAppointmentRequest>(body).map(|r| lens_add(&r))),
        fmt(serde_json::from_slice::<msgs::GetAppointmentRequest>(body).map(|r| lens_get(&r))),
        fmt(serde_json::from_slice::<msgs::GetSubscriptionInfoRequest>(body).map(|r| lens_getsub(&r))),
    ]
}

const EP_NAMES: [&str; 4] = ["register", "add_appointment", "get_appointment", "get_subscription_info"];

fn panic_take() -> Option<String> {
    verif_harness::LAST_PANIC.lock().ok().and_then(|mut g| g.take())
}

/// observations common to both kinds of cases, after the exchange
fn observe_after(env: &mut Env, sc: &Scen, before: &str, l: &mut Line) -> bool {
    // the handler task may still be finishing after the reply went out (it does not: the reply is
    // built from its result) - the panic flag and the log are read after the reply
    let after = env.towers.get_mut(sc.name).map(|p| db_hash(&mut p.world)).unwrap_or_default();
    let changed = after != before;
    let panic = panic_take();
    l.tok(changed as u8).tok(panic.is_some() as u8).tok(panic.clone().unwrap_or_else(|| "-".into()));
    changed || panic.is_some()
}

fn run_case(env: &mut Env, c: &Case) -> String {
    let mut l = c.line();
    l.tok("OBS");
    let sc = match scenario(&c.scen) {
        Some(s) => s,
        None => {
            l.tok("BADSCEN");
            return l.0;
        }
    };
    let before = env.select(&sc);
    *env.log.lock().unwrap() = RecLog::default();
    let _ = panic_take();
    let wire = c.wire();
    let t0 = Instant::now();
    let rep = exchange(env.http_addr, &wire, c.method == "HEAD");
    let ms = t0.elapsed().as_millis();
    // reply
    let is_json = rep.content_type.starts_with("application/json");
    let parsed: Option<serde_json::Value> = serde_json::from_slice(&rep.body).ok();
    let (code, errobj, keys) = match &parsed {
        Some(serde_json::Value::Object(m)) => {
            let code = m.get("error_code").and_then(|v| v.as_i64()).unwrap_or(-1);
            let errobj = m.len() == 2 && m.get("error").map(|v| v.is_string()).unwrap_or(false) && m.get("error_code").map(|v| v.is_u64()).unwrap_or(false);
            let mut ks: Vec<&str> = m.keys().map(|k| k.as_str()).collect();
            ks.sort();
            (code, errobj, if ks.is_empty() { "-".to_string() } else { ks.join(",") })
        }
        _ => (-1, false, "-".to_string()),
    };
    l.tok(rep.status).tok(code).tok(is_json as u8).tok(errobj as u8).tok(keys).tok(rep.body.len());
    let dirty = observe_after(env, &sc, &before, &mut l);
    l.tok(ms);
    // what the internal API saw
    let log = env.log.lock().unwrap().clone();
    match &log.entered {
        None => {
            l.tok("-").tok(-1).tok("-");
        }
        Some((idx, lens)) => {
            l.tok(idx).tok(log.returned.unwrap_or(-2));
            l.tok(if lens.is_empty() { "-".to_string() } else { lens.iter().map(|(f, n)| format!("{f}:{n}")).collect::<Vec<_>>().join(",") });
        }
    }
    // the input classes of the model
    let (clen, seen_body) = c.server_view();
    l.tok(clen).tok(ctype_class(c.ctype));
    let d = decode_classes(&seen_body);
    for (i, n) in EP_NAMES.iter().enumerate() {
        l.tok("D").tok(n).tok(&d[i]);
    }
    if dirty || log.entered.is_some() && log.returned.is_none() {
        env.discard(sc.name);
    }
    l.0
}

impl SockCase {
    fn line(&self) -> Line {
        let mut l = Line::new();
        l.tok("SOCK").tok(&self.scen).tok(&self.kind).tok(hexs(&self.bytes));
        l
    }
    fn parse(s: &str) -> Option<SockCase> {
        let t: Vec<&str> = s.split_whitespace().collect();
        if t.len() < 4 || t[0] != "SOCK" {
            return None;
        }
        Some(SockCase { scen: t[1].to_string(), kind: t[2].to_string(), bytes: unhexs(t[3])? })
    }
}

fn run_sock(env: &mut Env, c: &SockCase) -> String {
    let mut l = c.line();
    l.tok("OBS");
    let sc = match scenario(&c.scen) {
        Some(s) => s,
        None => {
            l.tok("BADSCEN");
            return l.0;
        }
    };
    let before = env.select(&sc);
    *env.log.lock().unwrap() = RecLog::default();
    let _ = panic_take();
    let t0 = Instant::now();
    // an incomplete request leaves the server waiting for the rest (no answer is due): give it a moment, then
    // hang up; -3 = nothing came back while the connection stayed open, -1 = the server closed it
    let rep = {
        let none = HttpReply { status: -1, content_type: String::new(), body: vec![] };
        match TcpStream::connect_timeout(&env.http_addr, TIMEOUT) {
            Ok(mut s) => {
                let _ = s.set_read_timeout(Some(Duration::from_millis(1200)));
                let _ = s.set_write_timeout(Some(TIMEOUT));
                let _ = s.write_all(&c.bytes);
                let mut buf = Vec::new();
                let mut waiting = false;
                let mut tmp = [0u8; 8192];
                let mut got = None;
                loop {
                    if let Some(r) = parse_response(&buf, false) {
                        got = Some(r);
                        break;
                    }
                    match s.read(&mut tmp) {
                        Ok(0) => break,
                        Ok(n) => buf.extend_from_slice(&tmp[..n]),
                        Err(e) => {
                            waiting = matches!(e.kind(), std::io::ErrorKind::WouldBlock | std::io::ErrorKind::TimedOut);
                            break;
                        }
                    }
                }
                got.or_else(|| parse_response_eof(&buf, false)).unwrap_or(HttpReply { status: if waiting { -3 } else { -1 }, ..none })
            }
            Err(_) => none,
        }
    };
    let ms = t0.elapsed().as_millis();
    l.tok(rep.status);
    let dirty = observe_after(env, &sc, &before, &mut l);
    l.tok(ms);
    let forwarded = env.log.lock().unwrap().entered.is_some();
    l.tok(forwarded as u8);
    // does the API still answer?
    let ping = exchange(env.http_addr, b"GET /ping HTTP/1.1\r\nHost: tower\r\nConnection: close\r\n\r\n", false);
    l.tok(ping.status);
    if dirty {
        env.discard(sc.name);
    }
    l.0
}

fn run_line(env: &mut Env, case_part: &str) -> Option<String> {
    if let Some(c) = Case::parse(case_part) {
        return Some(run_case(env, &c));
    }
    SockCase::parse(case_part).map(|c| run_sock(env, &c))
}

fn main() {
    let args: Vec<String> = std::env::args().collect();
    if args.len() < 4 {
        eprintln!("usage: http run <out> <scratch> | http replay <cases> <out> <scratch>");
        std::process::exit(2);
    }
    verif_harness::install_panic_hook();
    verif_harness::install_null_logger();
    match args[1].as_str() {
        "run" => {
            let out = std::fs::File::create(&args[2]).expect("cannot create output file");
            let mut out = std::io::BufWriter::new(out);
            let seed = env_u64("VERIF_SEED", 0);
            let thorough = std::env::var("VERIF_TIER").map(|t| t == "thorough").unwrap_or(false);
            let (shard, nshards) = std::env::var("VERIF_HTTP_SHARD")
                .ok()
                .and_then(|s| s.split_once('/').map(|(a, b)| (a.parse::<u64>().unwrap_or(0), b.parse::<u64>().unwrap_or(1).max(1))))
                .unwrap_or((0, 1));
            let total = env_u64("VERIF_HTTP_CASES", if thorough { 1_600_000 } else { 80_000 });
            let n = total / nshards + if shard < total % nshards { 1 } else { 0 };
            let mut env = Env::start(PathBuf::from(&args[3]).join(format!("shard-{shard}")));
            let mut r = Rng::new(seed ^ 0x48545450 ^ shard.wrapping_mul(0x9E37_79B9_7F4A_7C15));
            if shard == 0 {
                for c in gen::fixed_cases() {
                    writeln!(out, "{}", run_line(&mut env, &c).unwrap_or_default()).unwrap();
                }
            }
            for _ in 0..n {
                let c = gen::random_case(&mut r);
                writeln!(out, "{}", run_line(&mut env, &c).unwrap_or_default()).unwrap();
            }
            writeln!(out, "HTTPINFO tower_builds {}", env.builds).unwrap();
            out.flush().unwrap();
        }
        "replay" => {
            if args.len() < 5 {
                eprintln!("usage: http replay <cases> <out> <scratch>");
                std::process::exit(2);
            }
            let text = std::fs::read_to_string(&args[2]).expect("cannot read case file");
            let out = std::fs::File::create(&args[3]).expect("cannot create output file");
            let mut out = std::io::BufWriter::new(out);
            let mut env = Env::start(PathBuf::from(&args[4]).join("replay"));
            for line in text.lines() {
                let case_part = line.split(" OBS").next().unwrap_or(line);
                if let Some(o) = run_line(&mut env, case_part) {
                    writeln!(out, "{o}").unwrap();
                }
            }
            out.flush().unwrap();
        }
        other => {
            eprintln!("unknown command {other}");
            std::process::exit(2);
        }
    }
    // the servers are detached tasks: leave without waiting for them
    std::process::exit(0);
}
