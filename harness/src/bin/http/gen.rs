//! Case generator of the C15 harness: every random choice comes from the `Rng` handed in (seeded from
//! VERIF_SEED by main).  A case carries a LABEL, the answer the documented API gives to it:
//!   V            a valid request the tower (in the state of the scenario) accepts: 200
//!   E<st>:<code> a well-formed request the tower refuses for a documented reason: that status and error code
//!   I<code>      a request the HTTP layer must refuse: not 200, and error code <code> (0: any)
//!   U            no expectation beyond the general property
//! Labels are conservative: whenever a mutation could still be a valid request the label is U or I0.
use super::{scenario, Case, LenMode, Scen, SockCase, LOC_HELD, SCENARIOS};
use bitcoin::hashes::Hash;
use teos_common::appointment::Locator;
use teos_common::cryptography;
use verif_harness::rng::Rng;
use verif_harness::simchain::tx_of_id;
use verif_harness::world::key_of_uid;

// ---------------------------------------------------------------------------------------------
// a JSON text builder that can express what serde_json::Value cannot (duplicate keys, raw numbers)
// ---------------------------------------------------------------------------------------------
#[derive(Clone, Debug)]
pub enum J {
    Null,
    Bool(bool),
    Num(String),
    Str(String),
    Arr(Vec<J>),
    Obj(Vec<(String, J)>),
}

fn esc(s: &str, out: &mut String) {
    out.push('"');
    for c in s.chars() {
        match c {
            '"' => out.push_str("\\\""),
            '\\' => out.push_str("\\\\"),
            c if (c as u32) < 0x20 => out.push_str(&format!("\\u{:04x}", c as u32)),
            c => out.push(c),
        }
    }
    out.push('"');
}

impl J {
    pub fn print(&self, out: &mut String) {
        match self {
            J::Null => out.push_str("null"),
            J::Bool(b) => out.push_str(if *b { "true" } else { "false" }),
            J::Num(n) => out.push_str(n),
            J::Str(s) => esc(s, out),
            J::Arr(v) => {
                out.push('[');
                for (i, x) in v.iter().enumerate() {
                    if i > 0 {
                        out.push(',');
                    }
                    x.print(out);
                }
                out.push(']');
            }
            J::Obj(v) => {
                out.push('{');
                for (i, (k, x)) in v.iter().enumerate() {
                    if i > 0 {
                        out.push(',');
                    }
                    esc(k, out);
                    out.push(':');
                    x.print(out);
                }
                out.push('}');
            }
        }
    }
    pub fn text(&self) -> String {
        let mut s = String::new();
        self.print(&mut s);
        s
    }
    fn obj_mut(&mut self) -> &mut Vec<(String, J)> {
        match self {
            J::Obj(v) => v,
            _ => panic!("not an object"),
        }
    }
    /// the object holding the last component of `path`, and that component
    fn parent_mut<'a>(&'a mut self, path: &'a str) -> (&'a mut Vec<(String, J)>, &'a str) {
        match path.split_once('.') {
            None => (self.obj_mut(), path),
            Some((a, b)) => {
                let o = self.obj_mut();
                let i = o.iter().position(|(k, _)| k == a).expect("path");
                o[i].1.parent_mut(b)
            }
        }
    }
    fn get_mut<'a>(&'a mut self, path: &'a str) -> &'a mut J {
        let (o, k) = self.parent_mut(path);
        let i = o.iter().position(|(kk, _)| kk == k).expect("field");
        &mut o[i].1
    }
}

// ---------------------------------------------------------------------------------------------
// well-formed requests
// ---------------------------------------------------------------------------------------------
pub const EP_PATHS: [&str; 4] = ["/register", "/add_appointment", "/get_appointment", "/get_subscription_info"];
pub const CAPS: [usize; 4] = [87, 2048, 178, 127]; // the documented caps: only used to aim sizes at the boundaries

pub fn locator_of(id: u64) -> Vec<u8> {
    Locator::new(tx_of_id(id, 0).compute_txid()).to_vec()
}

#[derive(Clone, Debug)]
pub struct Base {
    pub ep: usize,
    /// who the tower will take the request to be from (the signer); for register: the key registered
    pub uid: u64,
    pub loc: u64,
    /// the signature authenticates `uid` for this very request
    pub auth_ok: bool,
    /// register: the user id is a public key
    pub key_ok: bool,
    pub json: J,
}

/// signature classes: 0 proper, 1 zbase32 text that is no signature, 2 truncated, 3 valid for another message,
/// 4 one character changed, 5 non-zbase32 characters
fn sig_of(r: &mut Rng, uid: u64, msg: &[u8], class: u64) -> String {
    let (sk, _) = key_of_uid(uid);
    let good = cryptography::sign(msg, &sk);
    match class {
        0 => good,
        1 => "d7xq9yfh3wzce5k8".repeat(6),
        2 => good[..good.len() / 2].to_string(),
        3 => cryptography::sign(b"some other message", &sk),
        4 => {
            let mut b = good.into_bytes();
            let i = r.below(b.len() as u64) as usize;
            b[i] = if b[i] == b'y' { b'b' } else { b'y' };
            String::from_utf8(b).unwrap()
        }
        _ => format!("{}!!==", &good[..good.len() - 5]),
    }
}

pub fn base_register(uid: u64, key_ok: bool) -> Base {
    let (_, pk) = key_of_uid(uid);
    let mut id = pk.serialize().to_vec();
    if !key_ok {
        id[0] = 0x05; // 33 bytes that are not a compressed public key
    }
    Base { ep: 0, uid, loc: 0, auth_ok: true, key_ok, json: J::Obj(vec![("user_id".into(), J::Str(hex::encode(id)))]) }
}

pub fn base_add(r: &mut Rng, uid: u64, loc: u64, blob: &[u8], delay: u32, sig_class: u64) -> Base {
    let locator = locator_of(loc);
    let mut msg = locator.clone();
    msg.extend_from_slice(blob);
    msg.extend_from_slice(&delay.to_be_bytes());
    let sig = sig_of(r, uid, &msg, sig_class);
    let json = J::Obj(vec![
        (
            "appointment".into(),
            J::Obj(vec![
                ("locator".into(), J::Str(hex::encode(&locator))),
                ("encrypted_blob".into(), J::Str(hex::encode(blob))),
                ("to_self_delay".into(), J::Num(delay.to_string())),
            ]),
        ),
        ("signature".into(), J::Str(sig)),
    ]);
    Base { ep: 1, uid, loc, auth_ok: sig_class == 0, key_ok: true, json }
}

pub fn base_get(r: &mut Rng, uid: u64, loc: u64, sig_class: u64) -> Base {
    let locator = locator_of(loc);
    let msg = format!("get appointment {}", hex::encode(&locator));
    let sig = sig_of(r, uid, msg.as_bytes(), sig_class);
    let json = J::Obj(vec![("locator".into(), J::Str(hex::encode(&locator))), ("signature".into(), J::Str(sig))]);
    Base { ep: 2, uid, loc, auth_ok: sig_class == 0, key_ok: true, json }
}

pub fn base_getsub(r: &mut Rng, uid: u64, sig_class: u64) -> Base {
    let sig = sig_of(r, uid, b"get subscription info", sig_class);
    Base { ep: 3, uid, loc: 0, auth_ok: sig_class == 0, key_ok: true, json: J::Obj(vec![("signature".into(), J::Str(sig))]) }
}

/// what the documented API answers to a request that passes the HTTP layer, in the state of the scenario
pub fn verdict(sc: &Scen, b: &Base) -> String {
    if !sc.reachable {
        return "E503:32".into();
    }
    let registered = sc.registered.contains(&b.uid);
    let authentic = b.auth_ok && registered && !sc.expired;
    match b.ep {
        0 => {
            if !b.key_ok {
                "E400:5".into()
            } else if sc.max_slots && registered {
                "E400:65".into()
            } else {
                "V".into()
            }
        }
        1 => {
            if !authentic {
                "E401:7".into()
            } else if sc.triggered && b.uid == 1 && b.loc == LOC_HELD {
                "E400:35".into()
            } else if sc.no_slots && !(b.uid == 1 && b.loc == LOC_HELD) {
                "E401:7".into()
            } else {
                "V".into()
            }
        }
        2 => {
            if !authentic {
                "E401:7".into()
            } else if b.uid == 1 && b.loc == LOC_HELD {
                "V".into()
            } else {
                "E404:36".into()
            }
        }
        _ => {
            if !authentic {
                "E401:7".into()
            } else {
                "V".into()
            }
        }
    }
}

fn pick_scen(r: &mut Rng, mostly_reg: bool) -> Scen {
    let name = if mostly_reg && r.chance(6, 10) { "reg" } else { *r.pick(&SCENARIOS) };
    scenario(name).unwrap()
}

fn random_base(r: &mut Rng, sc: &Scen) -> Base {
    let uid = *r.pick(&[1u64, 1, 1, 2, 3, 4]);
    let fresh_loc = 13 + r.below(50);
    let loc = *r.pick(&[LOC_HELD, LOC_HELD, 11, 12, fresh_loc]);
    let sig_class = if r.chance(3, 4) { 0 } else { 1 + r.below(5) };
    let _ = sc;
    match r.below(4) {
        0 => base_register(uid, !r.chance(1, 8)),
        1 => {
            let n = *r.pick(&[1usize, 16, 40, 150, 300, 600]) + r.below(20) as usize;
            let blob = r.bytes(n);
            let delay = *r.pick(&[0u32, 1, 42, 144, 65535, u32::MAX]);
            base_add(r, uid, loc, &blob, delay, sig_class)
        }
        2 => base_get(r, uid, loc, sig_class),
        _ => base_getsub(r, uid, sig_class),
    }
}

fn mk(sc: &Scen, label: String, kind: &str, method: &str, target: &str, ctype: char, len: LenMode, body: Vec<u8>) -> String {
    Case { scen: sc.name.into(), label, kind: kind.into(), method: method.into(), target: target.as_bytes().to_vec(), ctype, len, body }.line().0
}

fn post(sc: &Scen, label: String, kind: &str, ep: usize, body: Vec<u8>) -> String {
    mk(sc, label, kind, "POST", EP_PATHS[ep], 'j', LenMode::Exact, body)
}

/// label of a request that the HTTP layer must refuse with `code` - unless it does not even fit the cap
fn http_label(ep: usize, body_len: usize, code: u8) -> String {
    if body_len > CAPS[ep] {
        "I0".into()
    } else {
        format!("I{code}")
    }
}

// ---------------------------------------------------------------------------------------------
// kinds of cases
// ---------------------------------------------------------------------------------------------
fn gen_valid(r: &mut Rng) -> String {
    let sc = pick_scen(r, false);
    let b = if r.chance(1, 3) {
        // the holder of the prepared appointment, properly signed: the state decides
        let n = 40 + r.below(200) as usize;
        let blob = r.bytes(n);
        match r.below(4) {
            0 => base_register(1, true),
            1 => base_add(r, 1, LOC_HELD, &blob, 42, 0),
            2 => base_get(r, 1, LOC_HELD, 0),
            _ => base_getsub(r, 1, 0),
        }
    } else {
        random_base(r, &sc)
    };
    let body = b.json.text().into_bytes();
    let label = if body.len() > CAPS[b.ep] { "I0".into() } else { verdict(&sc, &b) };
    post(&sc, label, "valid", b.ep, body)
}

const FIELDS: [&[&str]; 4] = [
    &["user_id"],
    &["appointment", "appointment.locator", "appointment.encrypted_blob", "appointment.to_self_delay", "signature"],
    &["locator", "signature"],
    &["signature"],
];

fn is_hex_field(p: &str) -> bool {
    matches!(p, "user_id" | "locator" | "appointment.locator" | "appointment.encrypted_blob")
}
fn sized_field(p: &str) -> Option<usize> {
    match p {
        "user_id" => Some(33),
        "locator" | "appointment.locator" => Some(16),
        _ => None,
    }
}

fn gen_mutation(r: &mut Rng) -> String {
    let sc = pick_scen(r, true);
    // a base that would be fine at the HTTP layer
    let mut b = random_base(r, &sc);
    if b.ep == 0 {
        b = base_register(b.uid, true);
    }
    let ep = b.ep;
    // a (field, mutation) pair that applies
    let (path, choice) = loop {
        let path = *r.pick(FIELDS[ep]);
        let k = r.below(12);
        let applies = match k {
            4 => path != "appointment" && path != "appointment.to_self_delay",
            5..=8 => is_hex_field(path),
            9 => path == "appointment.to_self_delay",
            10 => path.ends_with("signature"),
            _ => true,
        };
        if applies {
            break (path, k);
        }
    };
    let leaf = path.rsplit('.').next().unwrap().to_string();
    let mut j = b.json.clone();
    let (kind, code): (&str, Option<u8>) = match choice {
        0 => {
            let (o, k) = j.parent_mut(path);
            o.retain(|(kk, _)| kk != k);
            ("mut-drop", Some(1))
        }
        1 => {
            let (o, k) = j.parent_mut(path);
            let v = o.iter().find(|(kk, _)| kk == k).unwrap().clone();
            o.push(v);
            ("mut-dup", Some(6))
        }
        2 | 3 => {
            let was_num = matches!(j.get_mut(path), J::Num(_));
            let (v, code) = match r.below(6) {
                0 if !was_num => (J::Num("7".into()), Some(3)),
                0 if r.chance(1, 2) => {
                    // a long non-ASCII string where a number is expected: serde echoes it back in its message
                    let ch = *r.pick(&['\u{20ac}', '\u{e9}', '\u{1f600}', '\u{4e2d}']);
                    let n = 25 + r.below(40) as usize;
                    let pre = "x".repeat(r.below(3) as usize);
                    (J::Str(format!("{pre}{}", ch.to_string().repeat(n))), Some(3))
                }
                0 => (J::Str("5".into()), Some(3)),
                1 => (J::Bool(true), Some(3)),
                2 => (J::Null, if path == "appointment" { Some(1) } else { Some(3) }),
                3 => (J::Arr(vec![]), if path == "appointment" { Some(0) } else { Some(3) }),
                4 => (J::Obj(vec![]), if path == "appointment" { Some(0) } else { Some(3) }),
                _ => (J::Arr(vec![J::Num("1".into()), J::Str("x".into())]), if path == "appointment" { Some(0) } else { Some(3) }),
            };
            *j.get_mut(path) = v;
            ("mut-retype", code)
        }
        4 if path != "appointment" && path != "appointment.to_self_delay" => {
            *j.get_mut(path) = J::Str(String::new());
            ("mut-empty", Some(2))
        }
        5 | 6 if is_hex_field(path) => {
            let want = sized_field(path);
            let n = loop {
                let n = *r.pick(&[1usize, 2, 15, 17, 31, 32, 34, 64, 100]);
                if Some(n) != want {
                    break n;
                }
            };
            *j.get_mut(path) = J::Str(hex::encode(r.bytes(n)));
            // a locator / user id of the wrong size is refused by the handler; a blob of another size is just
            // another blob, no longer covered by the signature
            match want {
                Some(_) => ("mut-resize", Some(4)),
                None => {
                    b.auth_ok = false;
                    ("mut-resize", None)
                }
            }
        }
        7 if is_hex_field(path) => {
            if let J::Str(s) = j.get_mut(path) {
                if r.chance(1, 2) {
                    s.pop();
                } else {
                    s.push('a');
                }
            }
            ("mut-oddhex", Some(5))
        }
        8 if is_hex_field(path) => {
            if let J::Str(s) = j.get_mut(path) {
                let mut bs = std::mem::take(s).into_bytes();
                let i = r.below(bs.len() as u64) as usize;
                bs[i] = *r.pick(&[b'g', b'Z', b' ', b'-', b'x']);
                *s = String::from_utf8(bs).unwrap();
            }
            ("mut-nonhex", Some(5))
        }
        9 if path == "appointment.to_self_delay" => {
            let v = *r.pick(&["4294967296", "-1", "1.5", "1e3", "99999999999999999999999999999999999999", "-0", "0x10", "1e999"]);
            *j.get_mut(path) = J::Num(v.into());
            ("mut-range", Some(0))
        }
        10 if leaf == "signature" => {
            let v = match r.below(6) {
                0 => "x".to_string(),
                1 => "y".repeat(104),
                2 => "\u{00e9}\u{4e16}\"\\\n".to_string(),
                // multi-byte characters at every alignment (a handler that cuts the text at a byte offset must not split one):
                // 0-3 ASCII characters, then two- or three-byte characters, short enough for the smallest body cap
                3 => format!("{}{}", "a".repeat(r.below(4) as usize), "\u{00e9}".repeat(3 + r.below(20) as usize)),
                4 => format!("{}{}", "a".repeat(r.below(4) as usize), "\u{20ac}".repeat(2 + r.below(12) as usize)),
                _ => "d7xq9yfh3wzce5k8".repeat(1 + r.below(3) as usize),
            };
            *j.get_mut(path) = J::Str(v);
            b.auth_ok = false;
            ("mut-sig", None)
        }
        _ => {
            // harmless variations: an unknown field, reversed key order, upper-case hex
            match r.below(3) {
                0 => j.obj_mut().push(("extra".into(), J::Arr(vec![J::Num("1".into()), J::Null]))),
                1 => j.obj_mut().reverse(),
                _ => {
                    if is_hex_field(path) {
                        if let J::Str(s) = j.get_mut(path) {
                            *s = s.to_ascii_uppercase();
                        }
                    }
                }
            }
            ("mut-harmless", None)
        }
    };
    let body = j.text().into_bytes();
    let label = match code {
        Some(c) => http_label(ep, body.len(), c),
        None => {
            if body.len() > CAPS[ep] {
                "I0".into()
            } else {
                verdict(&sc, &b)
            }
        }
    };
    post(&sc, label, kind, ep, body)
}

fn gen_raw(r: &mut Rng) -> String {
    let sc = pick_scen(r, true);
    let ep = r.below(4) as usize;
    let b = random_base(r, &sc);
    let good = b.json.text().into_bytes();
    let (kind, label, body): (&str, &str, Vec<u8>) = match r.below(14) {
        0 => ("raw-bytes", "U", { let n = r.below(300) as usize; r.bytes(n) }),
        1 => ("raw-bytes", "U", { let n = 1 + r.below(40) as usize; r.bytes(n) }),
        2 => ("raw-empty", "I0", vec![]),
        3 => ("raw-json", "I0", r.pick(&["null", "true", "123", "\"str\"", "{}", "{", "}", "[", "{\"a\":", "nul", "\u{feff}{}"]).as_bytes().to_vec()),
        4 => ("raw-trunc", "I0", { let n = r.below(good.len() as u64) as usize; good[..n].to_vec() }),
        5 => ("raw-trailing", "I0", { let mut v = good.clone(); v.extend_from_slice(r.pick(&["x", "}", "{}", ",", "\0"]).as_bytes()); v }),
        6 => ("raw-nul", "U", { let mut v = good.clone(); let i = r.below(v.len() as u64) as usize; v[i] = 0; v }),
        7 => ("raw-utf8", "U", { let mut v = good.clone(); let i = r.below(v.len() as u64) as usize; v[i] = 0xff; v }),
        8 => ("raw-nested", "I0", { let d = *r.pick(&[5usize, 127, 128, 129, 400]); let mut s = "[".repeat(d); s.push_str(&"]".repeat(d)); s.into_bytes() }),
        9 => ("raw-nested-obj", "I0", { let d = *r.pick(&[5usize, 127, 129, 300]); let mut s = "{\"a\":".repeat(d); s.push('1'); s.push_str(&"}".repeat(d)); s.into_bytes() }),
        10 => ("raw-huge", "I0", { let n = *r.pick(&[3000usize, 9000, 70000]); let mut s = String::from("{\"user_id\":\""); s.push_str(&"ab".repeat(n / 2)); s.push_str("\"}"); s.into_bytes() }),
        11 => ("raw-array-form", "U", { let mut s = String::new(); J::Arr(vec![J::Str("00".repeat(33))]).print(&mut s); s.into_bytes() }),
        12 => ("raw-printable", "U", { let n = r.below(120) as usize; (0..n).map(|_| 32 + r.below(95) as u8).collect() }),
        _ => ("raw-digits", "I0", "9".repeat(1 + r.below(400) as usize).into_bytes()),
    };
    post(&sc, label.into(), kind, ep, body)
}

const METHODS: [&str; 10] = ["GET", "POST", "PUT", "DELETE", "PATCH", "HEAD", "OPTIONS", "TRACE", "FOO", "post"];
const PATHS: [&str; 20] = [
    "/", "/register", "/add_appointment", "/get_appointment", "/get_subscription_info", "/ping", "/unknown", "/register/", "/register/x/y",
    "/REGISTER", "/ping/x", "//register", "/register?x=1", "/%72egister", "/ping?", "/get_appointment/../register", "/registerx", "/pin",
    "/get_subscription_info/", "/add_appointment?signature=1",
];

fn gen_route(r: &mut Rng) -> String {
    let sc = pick_scen(r, false);
    let method = *r.pick(&METHODS);
    let path = *r.pick(&PATHS);
    let b = random_base(r, &sc);
    let with_body = r.chance(2, 3);
    let body = if with_body { b.json.text().into_bytes() } else { vec![] };
    // the documented combinations
    let doc_post = EP_PATHS.contains(&path);
    let label = if method == "GET" && path == "/ping" {
        "V".to_string()
    } else if method == "POST" && doc_post {
        if with_body && path == EP_PATHS[b.ep] {
            if body.len() > CAPS[b.ep] { "I0".into() } else { verdict(&sc, &b) }
        } else {
            "I0".to_string() // no body, or the body (and signature) of another endpoint
        }
    } else if doc_post || path == "/ping" {
        "I0".to_string() // a documented path with another method
    } else if ["/", "/unknown", "/REGISTER", "/%72egister", "/registerx", "/pin"].contains(&path) {
        "I0".to_string() // no such endpoint
    } else {
        "U".to_string()
    };
    let len = if with_body || method == "POST" { LenMode::Exact } else { LenMode::Absent };
    mk(&sc, label, "route", method, path, if with_body { 'j' } else { 'n' }, len, body)
}

fn gen_frame(r: &mut Rng) -> String {
    let sc = pick_scen(r, true);
    let b = random_base(r, &sc);
    let body = b.json.text().into_bytes();
    let fits = body.len() <= CAPS[b.ep];
    let v = if fits { verdict(&sc, &b) } else { "I0".to_string() };
    match r.below(8) {
        0 | 1 => {
            let ct = *r.pick(&['t', 'f', 'p', 'x']);
            // refused by the HTTP layer before anything is decoded: 415 with the JSON error 'invalid request format'
            let label = if fits { "E415:6".to_string() } else { "I0".to_string() };
            mk(&sc, label, "frame-ctype-other", "POST", EP_PATHS[b.ep], ct, LenMode::Exact, body)
        }
        2 => {
            let ct = *r.pick(&['J', 'j']);
            mk(&sc, v, "frame-ctype-json", "POST", EP_PATHS[b.ep], ct, LenMode::Exact, body)
        }
        3 => {
            let ct = *r.pick(&['n', 'A']);
            mk(&sc, "U".into(), "frame-ctype-odd", "POST", EP_PATHS[b.ep], ct, LenMode::Exact, body)
        }
        4 => mk(&sc, "I0".into(), "frame-nolength", "POST", EP_PATHS[b.ep], 'j', LenMode::Absent, body),
        5 => mk(&sc, "I0".into(), "frame-chunked", "POST", EP_PATHS[b.ep], 'j', LenMode::Chunked, body),
        6 => {
            let n = r.below(body.len() as u64) as usize;
            mk(&sc, "I0".into(), "frame-short-length", "POST", EP_PATHS[b.ep], 'j', LenMode::Declared(n), body)
        }
        _ => {
            let n = CAPS[b.ep] + 1 + r.below(100_000) as usize;
            mk(&sc, "I0".into(), "frame-long-length", "POST", EP_PATHS[b.ep], 'j', LenMode::Declared(n), body)
        }
    }
}

/// bodies aimed at the documented caps: a well-formed request followed by white space up to the size
fn gen_size(r: &mut Rng) -> String {
    let sc = pick_scen(r, true);
    let uid = *r.pick(&[1u64, 1, 2, 3]);
    let ep = r.below(4) as usize;
    let b = match ep {
        0 => base_register(uid, true),
        1 => {
            // also steer the size by the blob itself
            let n = *r.pick(&[20usize, 300, 880, 900, 905, 910, 915, 930, 1100]) + r.below(8) as usize;
            let blob = r.bytes(n);
            let loc = 13 + r.below(50);
            base_add(r, uid, loc, &blob, 42, 0)
        }
        2 => base_get(r, uid, LOC_HELD, 0),
        _ => base_getsub(r, uid, 0),
    };
    let mut body = b.json.text().into_bytes();
    let cap = CAPS[ep];
    let target = match r.below(8) {
        0 => cap - 1,
        1 | 2 => cap,
        3 | 4 => cap + 1,
        5 => cap + 2 + r.below(20) as usize,
        6 => cap * 2,
        _ => *r.pick(&[cap * 10, 70_000]),
    };
    if body.len() < target {
        let ws = *r.pick(&[b' ', b'\n', b'\t']);
        body.resize(target, ws);
    }
    let label = if body.len() > cap { "I0".to_string() } else { verdict(&sc, &b) };
    post(&sc, label, if body.len() > cap { "size-over" } else { "size-within" }, ep, body)
}

fn gen_sock(r: &mut Rng) -> String {
    let sc = pick_scen(r, true);
    let (kind, bytes): (&str, Vec<u8>) = match r.below(14) {
        0 => ("sock-garbage", { let n = 1 + r.below(200) as usize; r.bytes(n) }),
        1 => ("sock-empty", vec![]),
        2 => ("sock-version", b"GET /ping HTTP/9.9\r\nHost: t\r\n\r\n".to_vec()),
        3 => ("sock-noversion", b"GET /ping\r\n\r\n".to_vec()),
        4 => ("sock-badmethod", b"G\x01T /ping HTTP/1.1\r\nHost: t\r\n\r\n".to_vec()),
        5 => ("sock-header-nocolon", b"GET /ping HTTP/1.1\r\nHost t\r\n\r\n".to_vec()),
        6 => ("sock-huge-header", { let mut v = b"GET /ping HTTP/1.1\r\nHost: t\r\nX-Pad: ".to_vec(); v.extend(std::iter::repeat(b'a').take(*r.pick(&[20_000usize, 200_000, 600_000]))); v.extend_from_slice(b"\r\n\r\n"); v }),
        7 => ("sock-huge-uri", { let mut v = b"GET /".to_vec(); v.extend(std::iter::repeat(b'a').take(*r.pick(&[10_000usize, 70_000, 300_000]))); v.extend_from_slice(b" HTTP/1.1\r\nHost: t\r\n\r\n"); v }),
        8 => ("sock-two-lengths", b"POST /register HTTP/1.1\r\nHost: t\r\nContent-Length: 2\r\nContent-Length: 5\r\n\r\n{}   ".to_vec()),
        9 => ("sock-bad-length", { let v = *r.pick(&["abc", "-1", "1e3", "99999999999999999999999", " ", "0x10"]); format!("POST /register HTTP/1.1\r\nHost: t\r\nContent-Length: {v}\r\n\r\n{{}}").into_bytes() }),
        10 => ("sock-bad-chunk", b"POST /register HTTP/1.1\r\nHost: t\r\nTransfer-Encoding: chunked\r\n\r\nzz\r\n{}\r\n0\r\n\r\n".to_vec()),
        11 => ("sock-many-headers", { let mut v = b"GET /ping HTTP/1.1\r\nHost: t\r\n".to_vec(); for i in 0..150 { v.extend_from_slice(format!("X-{i}: 1\r\n").as_bytes()); } v.extend_from_slice(b"\r\n"); v }),
        12 => ("sock-lf-only", b"GET /ping HTTP/1.1\nHost: t\n\n".to_vec()),
        _ => ("sock-http10", b"POST /register HTTP/1.0\r\nContent-Length: 2\r\n\r\n{}".to_vec()),
    };
    SockCase { scen: sc.name.into(), kind: kind.into(), bytes }.line().0
}

pub fn random_case(r: &mut Rng) -> String {
    match r.below(100) {
        0..=17 => gen_valid(r),
        18..=57 => gen_mutation(r),
        58..=69 => gen_raw(r),
        70..=79 => gen_route(r),
        80..=89 => gen_frame(r),
        90..=98 => gen_size(r),
        _ => gen_sock(r),
    }
}

/// boundary cases run once (shard 0): every method x path, every scenario x endpoint with a proper request,
/// every field x every mutation once, the sizes around every cap
pub fn fixed_cases() -> Vec<String> {
    let mut out = Vec::new();
    let mut r = Rng::new(0xF1ED);
    let reg = scenario("reg").unwrap();
    for m in METHODS {
        for p in PATHS {
            let label = if m == "GET" && p == "/ping" { "V" } else { "U" };
            out.push(mk(&reg, label.into(), "route", m, p, 'n', if m == "POST" { LenMode::Exact } else { LenMode::Absent }, vec![]));
        }
    }
    for name in SCENARIOS {
        let sc = scenario(name).unwrap();
        for uid in [1u64, 2, 3] {
            let blob = r.bytes(64);
            let bases = vec![
                base_register(uid, true),
                base_register(uid, false),
                base_add(&mut r, uid, LOC_HELD, &blob, 42, 0),
                base_add(&mut r, uid, 11, &blob, 42, 0),
                base_add(&mut r, uid, 11, &blob, 42, 4),
                base_get(&mut r, uid, LOC_HELD, 0),
                base_get(&mut r, uid, 11, 0),
                base_get(&mut r, uid, LOC_HELD, 3),
                base_getsub(&mut r, uid, 0),
                base_getsub(&mut r, uid, 5),
            ];
            for b in bases {
                out.push(post(&sc, verdict(&sc, &b), "valid", b.ep, b.json.text().into_bytes()));
            }
        }
    }
    // sizes: cap-1, cap, cap+1 for every endpoint (white space after a proper request of user 1)
    for ep in 0..4 {
        for d in [-1i64, 0, 1, 2] {
            let b = match ep {
                0 => base_register(1, true),
                1 => {
                    let blob = r.bytes(100);
                    base_add(&mut r, 1, 12, &blob, 42, 0)
                }
                2 => base_get(&mut r, 1, LOC_HELD, 0),
                _ => base_getsub(&mut r, 1, 0),
            };
            let mut body = b.json.text().into_bytes();
            let target = (CAPS[ep] as i64 + d) as usize;
            body.resize(target.max(body.len()), b' ');
            let label = if body.len() > CAPS[ep] { "I0".to_string() } else { verdict(&reg, &b) };
            out.push(post(&reg, label, if d > 0 { "size-over" } else { "size-within" }, ep, body));
        }
    }
    // a batch of every other kind from a fixed seed
    for _ in 0..600 {
        out.push(gen_mutation(&mut r));
    }
    for _ in 0..60 {
        out.push(gen_frame(&mut r));
        out.push(gen_raw(&mut r));
    }
    for _ in 0..40 {
        out.push(gen_sock(&mut r));
    }
    let _ = bitcoin::Txid::all_zeros();
    out
}
