//! Value generators: every field length including empty, u32 boundaries, arbitrary bytes, signature
//! strings of several lengths and alphabets, every status, txids with distinct first/last bytes.
use crate::toks::AnyMsg;
use bitcoin::secp256k1::{PublicKey, Secp256k1, SecretKey};
use teos_common::protos as msgs;
use verif_harness::rng::Rng;

pub const U32_EDGES: [u32; 9] = [0, 1, 9, 10, 255, 256, 0x7fff_ffff, 0x8000_0000, 0xffff_ffff];

pub fn u32v(r: &mut Rng) -> u32 {
    match r.below(4) {
        0 => *r.pick(&U32_EDGES),
        1 => r.below(1000) as u32,
        _ => r.next() as u32,
    }
}

pub fn bytes_len(r: &mut Rng, n: usize) -> Vec<u8> {
    match r.below(8) {
        0 => vec![0u8; n],
        1 => vec![0xffu8; n],
        2 => (0..n).map(|i| i as u8).collect(),
        _ => r.bytes(n),
    }
}

pub fn blob(r: &mut Rng) -> Vec<u8> {
    let n = match r.below(10) {
        0 => 0,
        1 => 1,
        2 => 2,
        3 => r.below(40) as usize,
        4 => 300 + r.below(100) as usize,
        _ => r.below(300) as usize,
    };
    bytes_len(r, n)
}

pub fn locator(r: &mut Rng) -> Vec<u8> {
    bytes_len(r, 16)
}

pub fn txid(r: &mut Rng) -> Vec<u8> {
    // 32 bytes whose first and last byte differ (so that a missing reversal shows)
    let mut t = r.bytes(32);
    t[0] = 0x01 + (r.below(100) as u8);
    t[31] = 0x80 + (r.below(100) as u8);
    if r.chance(1, 10) {
        // other lengths, empty included (the type is Vec<u8>)
        t = { let n = [0usize, 1, 2, 31, 33][r.below(5) as usize]; bytes_len(r, n) };
    }
    t
}

pub fn keypair(r: &mut Rng) -> (SecretKey, PublicKey) {
    let secp = Secp256k1::new();
    loop {
        if let Ok(sk) = SecretKey::from_slice(&r.bytes(32)) {
            let pk = PublicKey::from_secret_key(&secp, &sk);
            return (sk, pk);
        }
    }
}

const ZB32: &[u8] = b"ybndrfg8ejkmcpqxot1uwisza345h769";

/// a string as a signature field may carry it: real-looking zbase32 of the real length, short,
/// long, with characters JSON must escape, control characters, non-ASCII
pub fn sig_string(r: &mut Rng, allow_empty: bool) -> String {
    let kind = r.below(10);
    let s: String = match kind {
        0 if allow_empty => String::new(),
        0 | 1 => (0..1 + r.below(3)).map(|_| ZB32[r.below(32) as usize] as char).collect(),
        2 => {
            let n = 1 + r.below(12);
            (0..n).map(|_| *r.pick(&['"', '\\', '/', '\n', '\r', '\t', '\u{8}', '\u{c}', '\u{0}', '\u{1f}', '\u{7f}', 'a', ' '])).collect()
        }
        3 => {
            let n = 1 + r.below(8);
            (0..n).map(|_| *r.pick(&['é', 'ß', '中', '€', '\u{10348}', '😀', '\u{80}', '\u{7ff}', '\u{800}', '\u{ffff}', 'x'])).collect()
        }
        4 => {
            let n = 200 + r.below(400);
            (0..n).map(|_| ZB32[r.below(32) as usize] as char).collect()
        }
        5 => (0..1 + r.below(20)).map(|_| char::from_u32(r.below(0x80) as u32).unwrap()).collect(),
        _ => (0..104).map(|_| ZB32[r.below(32) as usize] as char).collect(),
    };
    s
}

pub fn message_string(r: &mut Rng) -> String {
    match r.below(6) {
        0 => String::new(),
        1 => "Subscription maximum slots count reached".to_owned(),
        2 => "User cannot be authenticated or the subscription has expired".to_owned(),
        3 => "appointment not found".to_owned(),
        // (no '%': tonic 0.11 does not escape it in the grpc-message header of the internal hop, so a message with
        //  "%xx" in it reaches the HTTP layer altered; the internal API's messages are fixed ASCII sentences without it)
        _ => sig_string(r, true).replace('%', "_"),
    }
}

pub fn appointment(r: &mut Rng) -> msgs::Appointment {
    msgs::Appointment { locator: locator(r), encrypted_blob: blob(r), to_self_delay: u32v(r) }
}

/// shapes the Rust type allows although the API never builds them (other locator widths)
pub fn loose_appointment(r: &mut Rng) -> msgs::Appointment {
    let mut a = appointment(r);
    if r.chance(1, 3) {
        a.locator = { let n = [0usize, 1, 15, 17, 32][r.below(5) as usize]; bytes_len(r, n) };
    }
    a
}

pub fn tracker(r: &mut Rng) -> msgs::Tracker {
    msgs::Tracker { dispute_txid: txid(r), penalty_txid: txid(r), penalty_rawtx: blob(r) }
}

pub fn appointment_data(r: &mut Rng) -> msgs::AppointmentData {
    use msgs::appointment_data::AppointmentData as AD;
    msgs::AppointmentData {
        appointment_data: match r.below(5) {
            0 => None,
            1 | 2 => Some(AD::Appointment(loose_appointment(r))),
            _ => Some(AD::Tracker(tracker(r))),
        },
    }
}

pub fn status(r: &mut Rng) -> i32 {
    match r.below(12) {
        0 => *r.pick(&[3, 7, -1, i32::MAX, i32::MIN]), // not a discriminant: emitted as not_found
        x => (x % 3) as i32,
    }
}

pub fn locators(r: &mut Rng) -> Vec<Vec<u8>> {
    let n = match r.below(6) {
        0 => 0,
        1 => 1,
        2 => 2,
        3 => 30 + r.below(40) as usize,
        _ => r.below(8) as usize,
    };
    (0..n)
        .map(|_| if r.chance(1, 12) { { let n = [0usize, 1, 15, 17][r.below(4) as usize]; bytes_len(r, n) } } else { locator(r) })
        .collect()
}

pub fn register_response(r: &mut Rng, user_id: Option<&[u8]>) -> msgs::RegisterResponse {
    msgs::RegisterResponse {
        user_id: match user_id {
            Some(u) if !r.chance(1, 6) => u.to_vec(),
            _ => {
                if r.chance(1, 2) {
                    keypair(r).1.serialize().to_vec()
                } else {
                    { let n = [0usize, 1, 32, 33, 34][r.below(5) as usize]; bytes_len(r, n) }
                }
            }
        },
        available_slots: u32v(r),
        subscription_start: u32v(r),
        subscription_expiry: u32v(r),
        subscription_signature: sig_string(r, true),
    }
}

pub fn add_appointment_response(r: &mut Rng) -> msgs::AddAppointmentResponse {
    msgs::AddAppointmentResponse {
        locator: if r.chance(1, 8) { { let n = [0usize, 15, 17][r.below(3) as usize]; bytes_len(r, n) } } else { locator(r) },
        start_block: u32v(r),
        signature: sig_string(r, true),
        available_slots: u32v(r),
        subscription_expiry: u32v(r),
    }
}

pub fn get_appointment_response(r: &mut Rng) -> msgs::GetAppointmentResponse {
    msgs::GetAppointmentResponse { appointment_data: if r.chance(1, 6) { None } else { Some(appointment_data(r)) }, status: status(r) }
}

pub fn get_subscription_info_response(r: &mut Rng) -> msgs::GetSubscriptionInfoResponse {
    msgs::GetSubscriptionInfoResponse { available_slots: u32v(r), subscription_expiry: u32v(r), locators: locators(r) }
}

/// any message type, any value its Rust type can hold
pub fn any_msg(r: &mut Rng, name: &str) -> AnyMsg {
    match name {
        "Appointment" => AnyMsg::Appointment(loose_appointment(r)),
        "Tracker" => AnyMsg::Tracker(tracker(r)),
        "AppointmentData" => AnyMsg::AppointmentData(appointment_data(r)),
        "AddAppointmentRequest" => AnyMsg::AddAppointmentRequest(msgs::AddAppointmentRequest {
            appointment: if r.chance(1, 8) { None } else { Some(loose_appointment(r)) },
            signature: sig_string(r, true),
        }),
        "AddAppointmentResponse" => AnyMsg::AddAppointmentResponse(add_appointment_response(r)),
        "GetAppointmentRequest" => AnyMsg::GetAppointmentRequest(msgs::GetAppointmentRequest {
            locator: loose_appointment(r).locator,
            signature: sig_string(r, true),
        }),
        "GetAppointmentResponse" => AnyMsg::GetAppointmentResponse(get_appointment_response(r)),
        "RegisterRequest" => AnyMsg::RegisterRequest(msgs::RegisterRequest { user_id: register_response(r, None).user_id }),
        "RegisterResponse" => AnyMsg::RegisterResponse(register_response(r, None)),
        "GetSubscriptionInfoRequest" => AnyMsg::GetSubscriptionInfoRequest(msgs::GetSubscriptionInfoRequest { signature: sig_string(r, true) }),
        "GetSubscriptionInfoResponse" => AnyMsg::GetSubscriptionInfoResponse(get_subscription_info_response(r)),
        other => panic!("unknown message type {other}"),
    }
}

// ---------------------------------------------------------------------------------------------
// JSON trees with ordered, repeatable keys: inputs for the parsers that no serialiser produces
// ---------------------------------------------------------------------------------------------
#[derive(Clone, Debug)]
pub enum J {
    Null,
    Bool(bool),
    Num(i128),
    Str(String),
    Arr(Vec<J>),
    Obj(Vec<(String, J)>),
}

impl J {
    pub fn from_value(v: &serde_json::Value) -> J {
        use serde_json::Value as V;
        match v {
            V::Null => J::Null,
            V::Bool(b) => J::Bool(*b),
            V::Number(n) => J::Num(n.as_i64().map(|x| x as i128).or(n.as_u64().map(|x| x as i128)).expect("integer")),
            V::String(s) => J::Str(s.clone()),
            V::Array(a) => J::Arr(a.iter().map(J::from_value).collect()),
            V::Object(o) => J::Obj(o.iter().map(|(k, v)| (k.clone(), J::from_value(v))).collect()),
        }
    }
    pub fn print(&self, out: &mut String, r: &mut Rng, spaces: bool) {
        let sp = |out: &mut String, r: &mut Rng| {
            if spaces && r.chance(1, 3) {
                out.push_str(*r.pick(&[" ", "\n", "\t", "  "]));
            }
        };
        match self {
            J::Null => out.push_str("null"),
            J::Bool(b) => out.push_str(if *b { "true" } else { "false" }),
            J::Num(n) => out.push_str(&n.to_string()),
            J::Str(s) => out.push_str(&serde_json::to_string(s).unwrap()),
            J::Arr(a) => {
                out.push('[');
                for (i, x) in a.iter().enumerate() {
                    if i > 0 {
                        out.push(',');
                    }
                    sp(out, r);
                    x.print(out, r, spaces);
                }
                sp(out, r);
                out.push(']');
            }
            J::Obj(o) => {
                out.push('{');
                for (i, (k, v)) in o.iter().enumerate() {
                    if i > 0 {
                        out.push(',');
                    }
                    sp(out, r);
                    out.push_str(&serde_json::to_string(k).unwrap());
                    sp(out, r);
                    out.push(':');
                    sp(out, r);
                    v.print(out, r, spaces);
                }
                sp(out, r);
                out.push('}');
            }
        }
    }
}

fn junk(r: &mut Rng) -> J {
    match r.below(9) {
        0 => J::Null,
        1 => J::Bool(r.chance(1, 2)),
        2 => J::Num(*r.pick(&[0i128, 1, -1, 255, 256, 4294967295, 4294967296, 9007199254740993, -2147483648])),
        3 => J::Str(String::new()),
        4 => J::Str("zz".to_owned()),
        5 => J::Str("abc".to_owned()),
        6 => J::Arr(vec![]),
        7 => J::Arr(vec![J::Num(1), J::Str("00".into())]),
        _ => J::Obj(vec![("a".to_owned(), J::Num(1))]),
    }
}

const KNOWN_KEYS: [&str; 20] = [
    "locator", "encrypted_blob", "to_self_delay", "dispute_txid", "penalty_txid", "penalty_rawtx", "appointment", "signature",
    "start_block", "available_slots", "subscription_expiry", "subscription_start", "subscription_signature", "user_id", "status",
    "locators", "error", "error_code", "appointment_data", "tracker",
];

fn mutate_str(r: &mut Rng, s: &str) -> J {
    match r.below(8) {
        0 => J::Str(s.to_uppercase()),
        1 => J::Str(s.chars().enumerate().map(|(i, c)| if i % 2 == 0 { c.to_ascii_uppercase() } else { c }).collect()),
        2 => J::Str(format!("{s}0")),
        3 => J::Str(if s.is_empty() {
            "g".into()
        } else {
            let mut t = s.to_owned();
            t.pop();
            t
        }),
        4 => J::Str(format!("{s}zz")),
        5 => J::Str((*r.pick(&["not_found", "being_watched", "dispute_responded", "NOT_FOUND", "BeingWatched", "", " being_watched"])).to_owned()),
        6 => J::Str(format!(" {s}")),
        _ => junk(r),
    }
}

/// one random structural or value mutation somewhere in the tree
pub fn mutate(r: &mut Rng, j: &mut J, depth: usize) {
    match j {
        J::Obj(o) => {
            let choice = r.below(10);
            if !o.is_empty() && choice < 4 && depth < 4 {
                let i = r.below(o.len() as u64) as usize;
                mutate(r, &mut o[i].1, depth + 1);
                return;
            }
            match choice % 6 {
                0 if !o.is_empty() => {
                    let i = r.below(o.len() as u64) as usize;
                    o.remove(i);
                }
                1 if !o.is_empty() => {
                    // the same key twice (same or different value)
                    let i = r.below(o.len() as u64) as usize;
                    let (k, v) = o[i].clone();
                    let v2 = if r.chance(1, 2) { v } else { junk(r) };
                    let at = r.below(o.len() as u64 + 1) as usize;
                    o.insert(at, (k, v2));
                }
                2 => {
                    let k = if r.chance(1, 2) { "unknown_key".to_owned() } else { (*r.pick(&KNOWN_KEYS)).to_owned() };
                    let at = r.below(o.len() as u64 + 1) as usize;
                    o.insert(at, (k, junk(r)));
                }
                3 if o.len() > 1 => {
                    let i = r.below(o.len() as u64) as usize;
                    let k = r.below(o.len() as u64) as usize;
                    o.swap(i, k);
                }
                4 => {
                    // positional form
                    *j = J::Arr(o.iter().map(|(_, v)| v.clone()).collect());
                }
                5 if !o.is_empty() => {
                    let i = r.below(o.len() as u64) as usize;
                    o[i].0 = if r.chance(1, 2) { o[i].0.to_uppercase() } else { format!("{}_", o[i].0) };
                }
                _ => *j = junk(r),
            }
        }
        J::Arr(a) => {
            if !a.is_empty() && r.chance(1, 2) && depth < 4 {
                let i = r.below(a.len() as u64) as usize;
                mutate(r, &mut a[i], depth + 1);
            } else {
                match r.below(4) {
                    0 if !a.is_empty() => {
                        a.pop();
                    }
                    1 => a.push(junk(r)),
                    2 => a.insert(0, junk(r)),
                    _ => *j = junk(r),
                }
            }
        }
        J::Str(s) => *j = mutate_str(r, s),
        J::Num(n) => {
            *j = match r.below(6) {
                0 => J::Num(*n + 1),
                1 => J::Num(-*n - 1),
                2 => J::Num(4294967296),
                3 => J::Num(4294967295),
                4 => J::Str(n.to_string()),
                _ => junk(r),
            }
        }
        _ => *j = junk(r),
    }
}
