//! Canonical token forms of the wire messages (one blank-separated token per scalar).
//!   bytes  : lower-case hex, `-` when empty
//!   string : hex of the UTF-8 bytes, `-` when empty
//!   u32/i32: decimal
//!   Option<M>: `N` | `S` followed by M;  oneof: `N` | `V0 ..` | `V1 ..`;  repeated: count then items
//! Fields are written in the order of the proto definition (= the order of Gen/WireSpec.v).
use teos_common::protos as msgs;
use verif_harness::Line;

pub fn hx(b: &[u8]) -> String {
    if b.is_empty() {
        "-".to_owned()
    } else {
        hex::encode(b)
    }
}
pub fn unhx(t: &str) -> Vec<u8> {
    if t == "-" {
        vec![]
    } else {
        hex::decode(t).expect("bad hex token")
    }
}
pub fn sx(s: &str) -> String {
    hx(s.as_bytes())
}
pub fn unsx(t: &str) -> String {
    String::from_utf8(unhx(t)).expect("string token is not UTF-8")
}

pub struct Rd<'a> {
    toks: Vec<&'a str>,
    pos: usize,
}
impl<'a> Rd<'a> {
    pub fn new(line: &'a str) -> Self {
        Rd { toks: line.split_ascii_whitespace().collect(), pos: 0 }
    }
    pub fn next(&mut self) -> &'a str {
        let t = self.toks.get(self.pos).copied().expect("case line ends early");
        self.pos += 1;
        t
    }
    pub fn peek(&self) -> Option<&'a str> {
        self.toks.get(self.pos).copied()
    }
    pub fn bytes(&mut self) -> Vec<u8> {
        unhx(self.next())
    }
    pub fn string(&mut self) -> String {
        unsx(self.next())
    }
    pub fn u32(&mut self) -> u32 {
        self.next().parse().expect("u32 token")
    }
    pub fn i32(&mut self) -> i32 {
        self.next().parse().expect("i32 token")
    }
    pub fn usize(&mut self) -> usize {
        self.next().parse().expect("usize token")
    }
}

/// Every message type of the public API (plus the error object as the tower scripts it).
#[derive(Clone, Debug, PartialEq)]
pub enum AnyMsg {
    Appointment(msgs::Appointment),
    Tracker(msgs::Tracker),
    AppointmentData(msgs::AppointmentData),
    AddAppointmentRequest(msgs::AddAppointmentRequest),
    AddAppointmentResponse(msgs::AddAppointmentResponse),
    GetAppointmentRequest(msgs::GetAppointmentRequest),
    GetAppointmentResponse(msgs::GetAppointmentResponse),
    RegisterRequest(msgs::RegisterRequest),
    RegisterResponse(msgs::RegisterResponse),
    GetSubscriptionInfoRequest(msgs::GetSubscriptionInfoRequest),
    GetSubscriptionInfoResponse(msgs::GetSubscriptionInfoResponse),
}

pub const MSG_NAMES: [&str; 11] = [
    "Appointment",
    "Tracker",
    "AppointmentData",
    "AddAppointmentRequest",
    "AddAppointmentResponse",
    "GetAppointmentRequest",
    "GetAppointmentResponse",
    "RegisterRequest",
    "RegisterResponse",
    "GetSubscriptionInfoRequest",
    "GetSubscriptionInfoResponse",
];

pub fn put_appointment(l: &mut Line, a: &msgs::Appointment) {
    l.tok(hx(&a.locator)).tok(hx(&a.encrypted_blob)).tok(a.to_self_delay);
}
pub fn get_appointment(r: &mut Rd) -> msgs::Appointment {
    msgs::Appointment { locator: r.bytes(), encrypted_blob: r.bytes(), to_self_delay: r.u32() }
}
pub fn put_tracker(l: &mut Line, t: &msgs::Tracker) {
    l.tok(hx(&t.dispute_txid)).tok(hx(&t.penalty_txid)).tok(hx(&t.penalty_rawtx));
}
pub fn get_tracker(r: &mut Rd) -> msgs::Tracker {
    msgs::Tracker { dispute_txid: r.bytes(), penalty_txid: r.bytes(), penalty_rawtx: r.bytes() }
}
pub fn put_appointment_data(l: &mut Line, d: &msgs::AppointmentData) {
    use msgs::appointment_data::AppointmentData as AD;
    match &d.appointment_data {
        None => {
            l.tok("N");
        }
        Some(AD::Appointment(a)) => {
            l.tok("V0");
            put_appointment(l, a);
        }
        Some(AD::Tracker(t)) => {
            l.tok("V1");
            put_tracker(l, t);
        }
    }
}
pub fn get_appointment_data(r: &mut Rd) -> msgs::AppointmentData {
    use msgs::appointment_data::AppointmentData as AD;
    let inner = match r.next() {
        "N" => None,
        "V0" => Some(AD::Appointment(get_appointment(r))),
        "V1" => Some(AD::Tracker(get_tracker(r))),
        t => panic!("bad oneof token {t}"),
    };
    msgs::AppointmentData { appointment_data: inner }
}

pub fn put_msg(l: &mut Line, m: &AnyMsg) {
    match m {
        AnyMsg::Appointment(a) => put_appointment(l, a),
        AnyMsg::Tracker(t) => put_tracker(l, t),
        AnyMsg::AppointmentData(d) => put_appointment_data(l, d),
        AnyMsg::AddAppointmentRequest(q) => {
            match &q.appointment {
                None => {
                    l.tok("N");
                }
                Some(a) => {
                    l.tok("S");
                    put_appointment(l, a);
                }
            }
            l.tok(sx(&q.signature));
        }
        AnyMsg::AddAppointmentResponse(p) => {
            l.tok(hx(&p.locator)).tok(p.start_block).tok(sx(&p.signature)).tok(p.available_slots).tok(p.subscription_expiry);
        }
        AnyMsg::GetAppointmentRequest(q) => {
            l.tok(hx(&q.locator)).tok(sx(&q.signature));
        }
        AnyMsg::GetAppointmentResponse(p) => {
            match &p.appointment_data {
                None => {
                    l.tok("N");
                }
                Some(d) => {
                    l.tok("S");
                    put_appointment_data(l, d);
                }
            }
            l.tok(p.status);
        }
        AnyMsg::RegisterRequest(q) => {
            l.tok(hx(&q.user_id));
        }
        AnyMsg::RegisterResponse(p) => {
            l.tok(hx(&p.user_id)).tok(p.available_slots).tok(p.subscription_start).tok(p.subscription_expiry).tok(sx(&p.subscription_signature));
        }
        AnyMsg::GetSubscriptionInfoRequest(q) => {
            l.tok(sx(&q.signature));
        }
        AnyMsg::GetSubscriptionInfoResponse(p) => {
            l.tok(p.available_slots).tok(p.subscription_expiry).tok(p.locators.len());
            for x in &p.locators {
                l.tok(hx(x));
            }
        }
    }
}

pub fn get_msg(name: &str, r: &mut Rd) -> AnyMsg {
    match name {
        "Appointment" => AnyMsg::Appointment(get_appointment(r)),
        "Tracker" => AnyMsg::Tracker(get_tracker(r)),
        "AppointmentData" => AnyMsg::AppointmentData(get_appointment_data(r)),
        "AddAppointmentRequest" => {
            let appointment = match r.next() {
                "N" => None,
                "S" => Some(get_appointment(r)),
                t => panic!("bad option token {t}"),
            };
            AnyMsg::AddAppointmentRequest(msgs::AddAppointmentRequest { appointment, signature: r.string() })
        }
        "AddAppointmentResponse" => AnyMsg::AddAppointmentResponse(msgs::AddAppointmentResponse {
            locator: r.bytes(),
            start_block: r.u32(),
            signature: r.string(),
            available_slots: r.u32(),
            subscription_expiry: r.u32(),
        }),
        "GetAppointmentRequest" => AnyMsg::GetAppointmentRequest(msgs::GetAppointmentRequest { locator: r.bytes(), signature: r.string() }),
        "GetAppointmentResponse" => {
            let appointment_data = match r.next() {
                "N" => None,
                "S" => Some(get_appointment_data(r)),
                t => panic!("bad option token {t}"),
            };
            AnyMsg::GetAppointmentResponse(msgs::GetAppointmentResponse { appointment_data, status: r.i32() })
        }
        "RegisterRequest" => AnyMsg::RegisterRequest(msgs::RegisterRequest { user_id: r.bytes() }),
        "RegisterResponse" => AnyMsg::RegisterResponse(msgs::RegisterResponse {
            user_id: r.bytes(),
            available_slots: r.u32(),
            subscription_start: r.u32(),
            subscription_expiry: r.u32(),
            subscription_signature: r.string(),
        }),
        "GetSubscriptionInfoRequest" => AnyMsg::GetSubscriptionInfoRequest(msgs::GetSubscriptionInfoRequest { signature: r.string() }),
        "GetSubscriptionInfoResponse" => {
            let available_slots = r.u32();
            let subscription_expiry = r.u32();
            let n = r.usize();
            let locators = (0..n).map(|_| r.bytes()).collect();
            AnyMsg::GetSubscriptionInfoResponse(msgs::GetSubscriptionInfoResponse { available_slots, subscription_expiry, locators })
        }
        other => panic!("unknown message type {other}"),
    }
}

impl AnyMsg {
    pub fn name(&self) -> &'static str {
        match self {
            AnyMsg::Appointment(_) => "Appointment",
            AnyMsg::Tracker(_) => "Tracker",
            AnyMsg::AppointmentData(_) => "AppointmentData",
            AnyMsg::AddAppointmentRequest(_) => "AddAppointmentRequest",
            AnyMsg::AddAppointmentResponse(_) => "AddAppointmentResponse",
            AnyMsg::GetAppointmentRequest(_) => "GetAppointmentRequest",
            AnyMsg::GetAppointmentResponse(_) => "GetAppointmentResponse",
            AnyMsg::RegisterRequest(_) => "RegisterRequest",
            AnyMsg::RegisterResponse(_) => "RegisterResponse",
            AnyMsg::GetSubscriptionInfoRequest(_) => "GetSubscriptionInfoRequest",
            AnyMsg::GetSubscriptionInfoResponse(_) => "GetSubscriptionInfoResponse",
        }
    }
    /// serde_json::to_vec of the real prost struct
    pub fn to_json(&self) -> Result<Vec<u8>, serde_json::Error> {
        match self {
            AnyMsg::Appointment(x) => serde_json::to_vec(x),
            AnyMsg::Tracker(x) => serde_json::to_vec(x),
            AnyMsg::AppointmentData(x) => serde_json::to_vec(x),
            AnyMsg::AddAppointmentRequest(x) => serde_json::to_vec(x),
            AnyMsg::AddAppointmentResponse(x) => serde_json::to_vec(x),
            AnyMsg::GetAppointmentRequest(x) => serde_json::to_vec(x),
            AnyMsg::GetAppointmentResponse(x) => serde_json::to_vec(x),
            AnyMsg::RegisterRequest(x) => serde_json::to_vec(x),
            AnyMsg::RegisterResponse(x) => serde_json::to_vec(x),
            AnyMsg::GetSubscriptionInfoRequest(x) => serde_json::to_vec(x),
            AnyMsg::GetSubscriptionInfoResponse(x) => serde_json::to_vec(x),
        }
    }
    /// serde_json::from_slice into the real prost struct
    pub fn from_json(name: &str, body: &[u8]) -> Result<AnyMsg, serde_json::Error> {
        Ok(match name {
            "Appointment" => AnyMsg::Appointment(serde_json::from_slice(body)?),
            "Tracker" => AnyMsg::Tracker(serde_json::from_slice(body)?),
            "AppointmentData" => AnyMsg::AppointmentData(serde_json::from_slice(body)?),
            "AddAppointmentRequest" => AnyMsg::AddAppointmentRequest(serde_json::from_slice(body)?),
            "AddAppointmentResponse" => AnyMsg::AddAppointmentResponse(serde_json::from_slice(body)?),
            "GetAppointmentRequest" => AnyMsg::GetAppointmentRequest(serde_json::from_slice(body)?),
            "GetAppointmentResponse" => AnyMsg::GetAppointmentResponse(serde_json::from_slice(body)?),
            "RegisterRequest" => AnyMsg::RegisterRequest(serde_json::from_slice(body)?),
            "RegisterResponse" => AnyMsg::RegisterResponse(serde_json::from_slice(body)?),
            "GetSubscriptionInfoRequest" => AnyMsg::GetSubscriptionInfoRequest(serde_json::from_slice(body)?),
            "GetSubscriptionInfoResponse" => AnyMsg::GetSubscriptionInfoResponse(serde_json::from_slice(body)?),
            other => panic!("unknown message type {other}"),
        })
    }
}
