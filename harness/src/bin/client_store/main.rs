//! C18 — in-process differential runner for the plugin's store: the REAL
//! `watchtower_plugin::wt_client::WTClient` and `dbm::DBM` (public API) over a SQLite file under
//! `.build/`, driven with generated operation sequences; one canonical line per case
//! (`CS ...` — format below), read by coq/extraction/drv_client_store.ml.
//!
//! usage: client_store slice <k> <n> <scratch-dir>   (cases with index = k mod n, to stdout; honours VERIF_SEED, VERIF_TIER)
//!        client_store replay <case-file> <out-file> <scratch-dir>
//!
//! Case:  CS <mode> <nt> <nl> <nops> <op>* OBS <step>*
//!   op   1 t addr slots start expiry sig | 2 t l slots sb usig tsig | 3 t l blob delay | 4 t l
//!        | 5 t l blob delay | 6 t l slots sb usig tsig | 7 t l blob delay | 8 t l sb usig tsig rec(>=100)
//!        | 9 t | 10 t status | 11
//!   mode 0: a full observation of the initial state and after every operation
//!   mode 1: result codes of every operation, full observation after the last operation and (when
//!           the last operation is an abandon / removal / move) before it
//!   step R <result> [F <full observation>]
//!   result: 0 ok, 1 Err(Expiry), 2 Err(Slots), 3 Err(NotFound), 4 unknown tower (no-op), 9 panic,
//!           8 skipped (mutex poisoned by an earlier panic)
use std::collections::HashMap;
use std::io::Write;
use std::panic::{catch_unwind, AssertUnwindSafe};
use std::path::{Path, PathBuf};

use bitcoin::secp256k1::{PublicKey, Secp256k1, SecretKey};
use rusqlite::{Connection, OpenFlags};
use tokio::sync::mpsc::{unbounded_channel, UnboundedReceiver};

use teos_common::appointment::{Appointment, Locator};
use teos_common::cryptography;
use teos_common::dbm::DatabaseConnection;
use teos_common::receipts::{AppointmentReceipt, RegistrationReceipt};
use teos_common::{TowerId, UserId};
use verif_harness::rng::Rng;
use verif_harness::{env_u64, Line};
use watchtower_plugin::wt_client::{RevocationData, WTClient};
use watchtower_plugin::{AppointmentStatus, MisbehaviorProof, TowerStatus};

#[derive(Clone, Debug, PartialEq, Eq, Hash)]
enum Op {
    Register { t: u64, addr: u64, slots: u64, start: u64, expiry: u64, sig: u64 },
    Receipt { t: u64, l: u64, slots: u64, sb: u64, usig: u64, tsig: u64 },
    Pending { t: u64, l: u64, blob: u64, delay: u64 },
    RemovePending { t: u64, l: u64 },
    Invalid { t: u64, l: u64, blob: u64, delay: u64 },
    MoveAccepted { t: u64, l: u64, slots: u64, sb: u64, usig: u64, tsig: u64 },
    MoveInvalid { t: u64, l: u64, blob: u64, delay: u64 },
    Misbehaving { t: u64, l: u64, sb: u64, usig: u64, tsig: u64, rec: u64 },
    Abandon { t: u64 },
    SetStatus { t: u64, st: u64 },
    Reload,
}

impl Op {
    fn toks(&self, l: &mut Line) {
        match *self {
            Op::Register { t, addr, slots, start, expiry, sig } => {
                l.tok(1).tok(t).tok(addr).tok(slots).tok(start).tok(expiry).tok(sig);
            }
            Op::Receipt { t, l: lo, slots, sb, usig, tsig } => {
                l.tok(2).tok(t).tok(lo).tok(slots).tok(sb).tok(usig).tok(tsig);
            }
            Op::Pending { t, l: lo, blob, delay } => {
                l.tok(3).tok(t).tok(lo).tok(blob).tok(delay);
            }
            Op::RemovePending { t, l: lo } => {
                l.tok(4).tok(t).tok(lo);
            }
            Op::Invalid { t, l: lo, blob, delay } => {
                l.tok(5).tok(t).tok(lo).tok(blob).tok(delay);
            }
            Op::MoveAccepted { t, l: lo, slots, sb, usig, tsig } => {
                l.tok(6).tok(t).tok(lo).tok(slots).tok(sb).tok(usig).tok(tsig);
            }
            Op::MoveInvalid { t, l: lo, blob, delay } => {
                l.tok(7).tok(t).tok(lo).tok(blob).tok(delay);
            }
            Op::Misbehaving { t, l: lo, sb, usig, tsig, rec } => {
                l.tok(8).tok(t).tok(lo).tok(sb).tok(usig).tok(tsig).tok(rec);
            }
            Op::Abandon { t } => {
                l.tok(9).tok(t);
            }
            Op::SetStatus { t, st } => {
                l.tok(10).tok(t).tok(st);
            }
            Op::Reload => {
                l.tok(11);
            }
        }
    }
    fn needs_before(&self) -> bool {
        matches!(self, Op::Abandon { .. } | Op::RemovePending { .. } | Op::MoveAccepted { .. } | Op::MoveInvalid { .. })
    }
}

fn parse_ops(toks: &[u64]) -> Vec<Op> {
    let mut i = 0;
    let mut ops = Vec::new();
    let mut nx = || {
        let v = toks[i];
        i += 1;
        v
    };
    let n = nx();
    for _ in 0..n {
        let tag = nx();
        ops.push(match tag {
            1 => Op::Register { t: nx(), addr: nx(), slots: nx(), start: nx(), expiry: nx(), sig: nx() },
            2 => Op::Receipt { t: nx(), l: nx(), slots: nx(), sb: nx(), usig: nx(), tsig: nx() },
            3 => Op::Pending { t: nx(), l: nx(), blob: nx(), delay: nx() },
            4 => Op::RemovePending { t: nx(), l: nx() },
            5 => Op::Invalid { t: nx(), l: nx(), blob: nx(), delay: nx() },
            6 => Op::MoveAccepted { t: nx(), l: nx(), slots: nx(), sb: nx(), usig: nx(), tsig: nx() },
            7 => Op::MoveInvalid { t: nx(), l: nx(), blob: nx(), delay: nx() },
            8 => Op::Misbehaving { t: nx(), l: nx(), sb: nx(), usig: nx(), tsig: nx(), rec: nx() },
            9 => Op::Abandon { t: nx() },
            10 => Op::SetStatus { t: nx(), st: nx() },
            11 => Op::Reload,
            x => panic!("bad op tag {x}"),
        });
    }
    ops
}

// ---------------------------------------------------------------- id <-> real value maps
fn key_of(id: u64) -> (SecretKey, PublicKey) {
    // ids 0..7 (towers) and 100..107 (other signers); computed once
    static KEYS: std::sync::OnceLock<Vec<(SecretKey, PublicKey)>> = std::sync::OnceLock::new();
    let keys = KEYS.get_or_init(|| {
        let secp = Secp256k1::new();
        (0..16u64)
            .map(|i| {
                let mut b = [0x11u8; 32];
                b[31] = i as u8 + 1;
                let sk = SecretKey::from_slice(&b).unwrap();
                (sk, PublicKey::from_secret_key(&secp, &sk))
            })
            .collect()
    });
    let idx = if id >= 100 { 8 + (id - 100) } else { id };
    keys[idx as usize]
}
fn tower_id(t: u64) -> TowerId {
    UserId(key_of(t).1)
}
fn locator(l: u64) -> Locator {
    Locator::from_slice(&[(l + 1) as u8; 16]).unwrap()
}
fn blob(b: u64) -> Vec<u8> {
    vec![b as u8; 3 + (b as usize % 5)]
}
fn status_of(code: u64) -> TowerStatus {
    match code {
        0 => TowerStatus::Reachable,
        1 => TowerStatus::TemporaryUnreachable,
        2 => TowerStatus::Unreachable,
        3 => TowerStatus::SubscriptionError,
        _ => TowerStatus::Misbehaving,
    }
}
fn status_code(s: TowerStatus) -> u64 {
    match s {
        TowerStatus::Reachable => 0,
        TowerStatus::TemporaryUnreachable => 1,
        TowerStatus::Unreachable => 2,
        TowerStatus::SubscriptionError => 3,
        TowerStatus::Misbehaving => 4,
    }
}

/// decoding tables: real strings / keys written by the operations -> the ids of the case
#[derive(Default)]
struct Names {
    sig: HashMap<String, u64>,
    tower: HashMap<Vec<u8>, u64>,
}
impl Names {
    fn new() -> Self {
        let mut n = Names::default();
        for t in 0..8u64 {
            n.tower.insert(tower_id(t).to_vec(), t);
        }
        for r in 0..8u64 {
            n.tower.insert(tower_id(100 + r).to_vec(), 100 + r);
        }
        n
    }
    fn sig_id(&self, s: &str) -> i64 {
        self.sig.get(s).map(|x| *x as i64).unwrap_or(-2)
    }
    fn tower_of(&self, b: &[u8]) -> i64 {
        self.tower.get(b).map(|x| *x as i64).unwrap_or(-2)
    }
}
fn addr_str(a: u64) -> String {
    format!("http://tower{a}:9814")
}
fn addr_id(s: &str) -> i64 {
    s.strip_prefix("http://tower").and_then(|r| r.strip_suffix(":9814")).and_then(|x| x.parse().ok()).unwrap_or(-2)
}
fn loc_id(b: &[u8]) -> i64 {
    if b.len() == 16 {
        b[0] as i64 - 1
    } else {
        -2
    }
}
fn blob_id(b: &[u8]) -> i64 {
    b.first().map(|x| *x as i64).unwrap_or(-2)
}

// ---------------------------------------------------------------- the system under test
struct Sut {
    dir: PathBuf,
    rt: tokio::runtime::Runtime,
    client: Option<WTClient>,
    rx: Option<UnboundedReceiver<(TowerId, RevocationData)>>,
    poisoned: bool,
    names: Names,
    user_id: Option<UserId>,
    raw_conn: Option<Connection>,
}

impl Sut {
    fn new(dir: &Path) -> Self {
        std::fs::create_dir_all(dir).unwrap();
        let rt = tokio::runtime::Builder::new_current_thread().enable_all().build().unwrap();
        Sut { dir: dir.to_path_buf(), rt, client: None, rx: None, poisoned: false, names: Names::new(), user_id: None, raw_conn: None }
    }
    fn db_path(&self) -> PathBuf {
        self.dir.join("watchtowers_db.sql3")
    }
    /// empty store: a fresh database file for the first case of a worker, afterwards the same file
    /// with every row of the seven tables deleted (the client key is kept)
    fn reset(&mut self) {
        self.client = None;
        self.rx = None;
        self.names = Names::new();
        if let Some(conn) = &self.raw_conn {
            conn.execute_batch("BEGIN; DELETE FROM towers; DELETE FROM appointments; COMMIT;").unwrap();
            let n: i64 = conn
                .query_row(
                    "SELECT (SELECT COUNT(*) FROM towers) + (SELECT COUNT(*) FROM appointments) + (SELECT COUNT(*) FROM pending_appointments) \
                     + (SELECT COUNT(*) FROM invalid_appointments) + (SELECT COUNT(*) FROM registration_receipts) \
                     + (SELECT COUNT(*) FROM appointment_receipts) + (SELECT COUNT(*) FROM misbehaving_proofs)",
                    [],
                    |r| r.get(0),
                )
                .unwrap();
            assert_eq!(n, 0, "reset left rows behind");
            self.open();
        } else {
            let _ = std::fs::remove_file(self.db_path());
            let _ = std::fs::remove_file(self.dir.join("watchtowers_db.sql3-journal"));
            self.user_id = None;
            self.open();
            let conn = Connection::open_with_flags(self.db_path(), OpenFlags::SQLITE_OPEN_READ_WRITE).unwrap();
            conn.execute_batch("PRAGMA foreign_keys=1; PRAGMA synchronous=OFF; PRAGMA journal_mode=MEMORY;").unwrap();
            self.raw_conn = Some(conn);
        }
    }
    /// WTClient::new over the directory (first start or restart); returns what it sent to the retry manager
    fn open(&mut self) -> Vec<(i64, Vec<i64>)> {
        self.client = None;
        let (tx, mut rx) = unbounded_channel();
        let c = self.rt.block_on(WTClient::new(self.dir.clone(), tx));
        // durability of single statements is SQLite's business (trusted base): do not fsync
        // ... and keep the rollback journal in memory (no journal file per transaction): crash
        // durability is not what this runner examines, rollback of a failed transaction is unaffected
        c.dbm.get_connection().execute_batch("PRAGMA synchronous=OFF; PRAGMA journal_mode=MEMORY;").unwrap();
        let mut sent = Vec::new();
        while let Ok((t, data)) = rx.try_recv() {
            let locs: std::collections::HashSet<Locator> = data.into();
            let mut ls: Vec<i64> = locs.iter().map(|l| loc_id(&l.to_vec())).collect();
            ls.sort();
            sent.push((self.names.tower_of(&t.to_vec()), ls));
        }
        sent.sort();
        if self.user_id.is_none() {
            self.user_id = Some(c.user_id);
        }
        self.client = Some(c);
        self.rx = Some(rx);
        self.poisoned = false;
        sent
    }

    fn apply(&mut self, op: &Op) -> u64 {
        if let Op::Reload = op {
            self.open();
            return 0;
        }
        if self.poisoned {
            return 8;
        }
        let names = &mut self.names;
        let c = self.client.as_mut().unwrap();
        let user_sk = c.user_sk;
        let user_id = c.user_id;
        let r = catch_unwind(AssertUnwindSafe(|| -> u64 {
            let mut app_receipt = |t_signer: u64, l: u64, sb: u64, usig: u64, tsig: u64| -> AppointmentReceipt {
                let us = cryptography::sign(format!("appointment {l} {usig}").as_bytes(), &user_sk);
                names.sig.insert(us.clone(), usig);
                let mut r = AppointmentReceipt::new(us, sb as u32);
                r.sign(&key_of(t_signer).0);
                // the tower signature id distinguishes receipts with equal content
                let s = format!("{}#{tsig}", r.signature().unwrap());
                names.sig.insert(s.clone(), tsig);
                AppointmentReceipt::with_signature(r.user_signature().to_owned(), sb as u32, s)
            };
            match *op {
                Op::Register { t, addr, slots, start, expiry, sig } => {
                    let mut r = RegistrationReceipt::new(user_id, slots as u32, start as u32, expiry as u32);
                    r.sign(&key_of(t).0);
                    let s = format!("{}#{sig}", r.signature().unwrap());
                    names.sig.insert(s.clone(), sig);
                    let r = RegistrationReceipt::with_signature(user_id, slots as u32, start as u32, expiry as u32, s);
                    match c.add_update_tower(tower_id(t), &addr_str(addr), &r) {
                        Ok(()) => 0,
                        Err(e) => {
                            if e.is_expiry() {
                                1
                            } else {
                                2
                            }
                        }
                    }
                }
                Op::Receipt { t, l, slots, sb, usig, tsig } => {
                    let known = c.towers.contains_key(&tower_id(t));
                    let r = app_receipt(t, l, sb, usig, tsig);
                    c.add_appointment_receipt(tower_id(t), locator(l), slots as u32, &r);
                    if known {
                        0
                    } else {
                        4
                    }
                }
                Op::Pending { t, l, blob: b, delay } => {
                    let known = c.towers.contains_key(&tower_id(t));
                    c.add_pending_appointment(tower_id(t), &Appointment::new(locator(l), blob(b), delay as u32));
                    if known {
                        0
                    } else {
                        4
                    }
                }
                Op::RemovePending { t, l } => {
                    let known = c.towers.contains_key(&tower_id(t));
                    c.remove_pending_appointment(tower_id(t), locator(l));
                    if known {
                        0
                    } else {
                        4
                    }
                }
                Op::Invalid { t, l, blob: b, delay } => {
                    let known = c.towers.contains_key(&tower_id(t));
                    c.add_invalid_appointment(tower_id(t), &Appointment::new(locator(l), blob(b), delay as u32));
                    if known {
                        0
                    } else {
                        4
                    }
                }
                Op::MoveAccepted { t, l, slots, sb, usig, tsig } => {
                    // retrier.rs, Ok arm: add_appointment_receipt; remove_pending_appointment
                    let known = c.towers.contains_key(&tower_id(t));
                    let r = app_receipt(t, l, sb, usig, tsig);
                    c.add_appointment_receipt(tower_id(t), locator(l), slots as u32, &r);
                    c.remove_pending_appointment(tower_id(t), locator(l));
                    if known {
                        0
                    } else {
                        4
                    }
                }
                Op::MoveInvalid { t, l, blob: b, delay } => {
                    // retrier.rs, rejection arm: add_invalid_appointment; remove_pending_appointment
                    let known = c.towers.contains_key(&tower_id(t));
                    let a = Appointment::new(locator(l), blob(b), delay as u32);
                    c.add_invalid_appointment(tower_id(t), &a);
                    c.remove_pending_appointment(tower_id(t), locator(l));
                    if known {
                        0
                    } else {
                        4
                    }
                }
                Op::Misbehaving { t, l, sb, usig, tsig, rec } => {
                    let known = c.towers.contains_key(&tower_id(t));
                    let r = app_receipt(rec, l, sb, usig, tsig);
                    let proof = MisbehaviorProof::new(locator(l), r, tower_id(rec));
                    c.flag_misbehaving_tower(tower_id(t), proof);
                    if known {
                        0
                    } else {
                        4
                    }
                }
                Op::Abandon { t } => match c.remove_tower(tower_id(t)) {
                    Ok(()) => 0,
                    Err(_) => 3,
                },
                Op::SetStatus { t, st } => {
                    c.set_tower_status(tower_id(t), status_of(st));
                    0
                }
                Op::Reload => unreachable!(),
            }
        }));
        match r {
            Ok(code) => code,
            Err(_) => {
                self.poisoned = true;
                9
            }
        }
    }

    // ------------------------------------------------------------ observations
    fn summaries(&self, l: &mut Line, towers: &HashMap<TowerId, watchtower_plugin::TowerSummary>) {
        let mut v: Vec<(i64, &watchtower_plugin::TowerSummary)> =
            towers.iter().map(|(id, s)| (self.names.tower_of(&id.to_vec()), s)).collect();
        v.sort_by_key(|x| x.0);
        l.tok(v.len());
        for (id, s) in v {
            let j = serde_json::to_value(s).unwrap();
            l.tok(id)
                .tok(addr_id(s.net_addr.net_addr()))
                .tok(s.available_slots)
                .tok(j["subscription_start"].as_u64().unwrap())
                .tok(s.subscription_expiry)
                .tok(status_code(s.status));
            for set in [&s.pending_appointments, &s.invalid_appointments] {
                let mut ls: Vec<i64> = set.iter().map(|x| loc_id(&x.to_vec())).collect();
                ls.sort();
                l.tok(ls.len());
                for x in ls {
                    l.tok(x);
                }
            }
        }
    }

    fn observe(&mut self, l: &mut Line, nt: u64) {
        l.tok("F").tok(self.poisoned as u8);
        {
            let c = self.client.as_ref().unwrap();
            // one read transaction around the reads of this observation (fewer file locks; same answers)
            c.dbm.get_connection().execute_batch("BEGIN").unwrap();
            l.tok("MEM");
            self.summaries(l, &c.towers);
            l.tok("LT");
            self.summaries(l, &c.dbm.load_towers());
        }
        // a restart on the same directory, next to the running client
        {
            let (tx, mut rx) = unbounded_channel();
            let c2 = self.rt.block_on(WTClient::new(self.dir.clone(), tx));
            l.tok("RL").tok((Some(c2.user_id) == self.user_id) as u8);
            self.summaries(l, &c2.towers);
            let mut sent = Vec::new();
            while let Ok((t, data)) = rx.try_recv() {
                let locs: std::collections::HashSet<Locator> = data.into();
                let mut ls: Vec<i64> = locs.iter().map(|x| loc_id(&x.to_vec())).collect();
                ls.sort();
                sent.push((self.names.tower_of(&t.to_vec()), ls));
            }
            sent.sort();
            l.tok(sent.len());
            for (t, ls) in sent {
                l.tok(t).tok(ls.len());
                for x in ls {
                    l.tok(x);
                }
            }
        }
        let c = self.client.as_ref().unwrap();
        for t in 0..nt {
            l.tok("TI").tok(t);
            match catch_unwind(AssertUnwindSafe(|| c.dbm.load_tower_record(tower_id(t)))) {
                Err(_) => {
                    l.tok(9);
                }
                Ok(None) => {
                    l.tok(0);
                }
                Ok(Some(info)) => {
                    l.tok(1)
                        .tok(addr_id(&info.net_addr))
                        .tok(info.available_slots)
                        .tok(info.subscription_start)
                        .tok(info.subscription_expiry)
                        .tok(status_code(info.status));
                    let mut rs: Vec<(i64, i64)> =
                        info.appointments.iter().map(|(k, v)| (loc_id(&k.to_vec()), self.names.sig_id(v))).collect();
                    rs.sort();
                    l.tok(rs.len());
                    for (a, b) in rs {
                        l.tok(a).tok(b);
                    }
                    for apps in [&info.pending_appointments, &info.invalid_appointments] {
                        let mut v: Vec<(i64, i64, u32)> = apps
                            .iter()
                            .map(|a| (loc_id(&a.locator.to_vec()), blob_id(&a.encrypted_blob), a.to_self_delay))
                            .collect();
                        v.sort();
                        l.tok(v.len());
                        for (a, b, d) in v {
                            l.tok(a).tok(b).tok(d);
                        }
                    }
                    match &info.misbehaving_proof {
                        None => {
                            l.tok(0);
                        }
                        Some(p) => {
                            l.tok(1)
                                .tok(loc_id(&p.locator.to_vec()))
                                .tok(p.appointment_receipt.start_block())
                                .tok(self.names.sig_id(p.appointment_receipt.user_signature()))
                                .tok(self.names.sig_id(&p.appointment_receipt.signature().unwrap()))
                                .tok(self.names.tower_of(&p.recovered_id.to_vec()));
                        }
                    }
                    // the two locator readers used by the retry manager
                    for st in [AppointmentStatus::Pending, AppointmentStatus::Invalid] {
                        let mut ls: Vec<i64> =
                            c.dbm.load_appointment_locators(tower_id(t), st).iter().map(|x| loc_id(&x.to_vec())).collect();
                        ls.sort();
                        l.tok(ls.len());
                        for x in ls {
                            l.tok(x);
                        }
                    }
                }
            }
        }
        c.dbm.get_connection().execute_batch("COMMIT").unwrap();
        self.raw(l);
    }

    /// raw rows of the eight tables, read through a separate read-only connection
    fn raw(&self, l: &mut Line) {
        // a second connection to the file, used for reading only (and for emptying the tables between cases)
        let conn = self.raw_conn.as_ref().unwrap();
        conn.execute_batch("BEGIN").unwrap();
        l.tok("RAW");
        let names = &self.names;
        let tables: [(&str, &str); 8] = [
            ("towers", "tower_id, net_addr, available_slots"),
            ("appointments", "locator, encrypted_blob, to_self_delay"),
            ("pending_appointments", "locator, tower_id"),
            ("invalid_appointments", "locator, tower_id"),
            ("registration_receipts", "tower_id, available_slots, subscription_start, subscription_expiry, signature"),
            ("appointment_receipts", "locator, tower_id, start_block, user_signature, tower_signature"),
            ("misbehaving_proofs", "tower_id, locator, recovered_id"),
            ("keys", "id, key"),
        ];
        for (ti, (name, _cols)) in tables.iter().enumerate() {
            // SELECT * so that the columns come in declaration order, as in the generated schema
            let mut stmt = conn.prepare(&format!("SELECT * FROM {name}")).unwrap();
            let colnames: Vec<String> = stmt.column_names().iter().map(|s| s.to_string()).collect();
            let mut rows_out: Vec<Vec<i64>> = Vec::new();
            let mut rows = stmt.query([]).unwrap();
            while let Some(row) = rows.next().unwrap() {
                let mut out = Vec::new();
                for (ci, cn) in colnames.iter().enumerate() {
                    let v = row.get_ref(ci).unwrap();
                    use rusqlite::types::ValueRef;
                    let x: i64 = match (cn.as_str(), v) {
                        ("tower_id", ValueRef::Blob(b)) | ("recovered_id", ValueRef::Blob(b)) => names.tower_of(b),
                        ("locator", ValueRef::Blob(b)) => loc_id(b),
                        ("encrypted_blob", ValueRef::Blob(b)) => blob_id(b),
                        ("net_addr", ValueRef::Text(s)) => addr_id(std::str::from_utf8(s).unwrap()),
                        ("signature", ValueRef::Text(s))
                        | ("user_signature", ValueRef::Text(s))
                        | ("tower_signature", ValueRef::Text(s)) => names.sig_id(std::str::from_utf8(s).unwrap()),
                        ("key", _) => 1,
                        (_, ValueRef::Integer(i)) => i,
                        _ => -3,
                    };
                    out.push(x);
                }
                rows_out.push(out);
            }
            rows_out.sort();
            l.tok(ti).tok(rows_out.len());
            for r in rows_out {
                for x in r {
                    l.tok(x);
                }
            }
        }
        conn.execute_batch("COMMIT").unwrap();
    }

    fn run_case(&mut self, mode: u64, nt: u64, nl: u64, ops: &[Op]) -> String {
        self.reset();
        let mut l = Line::new();
        l.tok("CS").tok(mode).tok(nt).tok(nl).tok(ops.len());
        for o in ops {
            o.toks(&mut l);
        }
        l.tok("OBS");
        if mode == 0 {
            l.tok("R").tok(0);
            self.observe(&mut l, nt);
        }
        for (i, o) in ops.iter().enumerate() {
            let last = i + 1 == ops.len();
            if mode == 1 && last && o.needs_before() {
                l.tok("B");
                self.observe(&mut l, nt);
            }
            let r = self.apply(o);
            l.tok("R").tok(r);
            if mode == 0 || last {
                self.observe(&mut l, nt);
            }
        }
        if mode == 1 && ops.is_empty() {
            l.tok("R").tok(0);
            self.observe(&mut l, nt);
        }
        l.0
    }
}

// ---------------------------------------------------------------- generators
/// the exhaustive alphabet over nt towers and nl locators; i = position of the op in the sequence
fn alphabet(i: u64, nt: u64, nl: u64) -> Vec<Op> {
    let mut v = Vec::new();
    let k = 10 * (i + 1);
    for t in 0..nt {
        v.push(Op::Register { t, addr: t, slots: 100 + k, start: 1 + i, expiry: 100 + k, sig: 200 + i });
        // a receipt that does not extend the subscription (unless it is the first one)
        v.push(Op::Register { t, addr: 4 + t, slots: 100 + k, start: 1 + i, expiry: 100, sig: 200 + i });
    }
    for t in 0..nt {
        for l in 0..nl {
            v.push(Op::Receipt { t, l, slots: 90 - i, sb: 20 + i, usig: 300 + i, tsig: 400 + i });
            v.push(Op::Pending { t, l, blob: 10 + l, delay: 42 });
            v.push(Op::Invalid { t, l, blob: 10 + l, delay: 42 });
            v.push(Op::MoveAccepted { t, l, slots: 90 - i, sb: 20 + i, usig: 300 + i, tsig: 400 + i });
            v.push(Op::MoveInvalid { t, l, blob: 10 + l, delay: 42 });
            v.push(Op::Misbehaving { t, l, sb: 20 + i, usig: 300 + i, tsig: 400 + i, rec: 100 + t });
        }
    }
    for t in 0..nt {
        v.push(Op::Abandon { t });
    }
    v.push(Op::Reload);
    v
}

fn op_tl(o: &Op) -> (Option<u64>, Option<u64>) {
    match *o {
        Op::Register { t, .. } | Op::Abandon { t } | Op::SetStatus { t, .. } => (Some(t), None),
        Op::Receipt { t, l, .. }
        | Op::Pending { t, l, .. }
        | Op::RemovePending { t, l }
        | Op::Invalid { t, l, .. }
        | Op::MoveAccepted { t, l, .. }
        | Op::MoveInvalid { t, l, .. }
        | Op::Misbehaving { t, l, .. } => (Some(t), Some(l)),
        Op::Reload => (None, None),
    }
}

/// all sequences of length exactly `len` after `prefix`, towers and locators in order of first use
fn enumerate(prefix: &[Op], len: usize, nt: u64, nl: u64, f: &mut dyn FnMut(&[Op])) {
    fn go(cur: &mut Vec<Op>, left: usize, nt: u64, nl: u64, mt: u64, ml: u64, f: &mut dyn FnMut(&[Op])) {
        if left == 0 {
            f(cur);
            return;
        }
        for o in alphabet(cur.len() as u64, nt, nl) {
            let (t, l) = op_tl(&o);
            if t.map_or(false, |t| t > mt) || l.map_or(false, |l| l > ml) {
                continue;
            }
            let mt2 = if t == Some(mt) { (mt + 1).min(nt) } else { mt };
            let ml2 = if l == Some(ml) { (ml + 1).min(nl) } else { ml };
            cur.push(o);
            go(cur, left - 1, nt, nl, mt2, ml2, f);
            cur.pop();
        }
    }
    let mut mt = 0;
    let mut ml = 0;
    for o in prefix {
        let (t, l) = op_tl(o);
        if let Some(t) = t {
            mt = mt.max(t + 1);
        }
        if let Some(l) = l {
            ml = ml.max(l + 1);
        }
    }
    let mut cur = prefix.to_vec();
    go(&mut cur, len, nt, nl, mt.min(nt), ml.min(nl), f);
}

fn random_case(rng: &mut Rng, nt: u64, nl: u64, len: usize) -> Vec<Op> {
    let mut ops = Vec::new();
    // bookkeeping that biases the generator towards meaningful operations (it never restricts it)
    let mut registered: Vec<u64> = Vec::new();
    let mut pending: Vec<(u64, u64)> = Vec::new();
    let mut exp: HashMap<u64, u64> = HashMap::new();
    for i in 0..len as u64 {
        let t = if !registered.is_empty() && rng.chance(5, 6) { *rng.pick(&registered) } else { rng.below(nt) };
        let l = rng.below(nl);
        let (t, l) = if !pending.is_empty() && rng.chance(1, 2) { *rng.pick(&pending) } else { (t, l) };
        let choice = if registered.is_empty() { 0 } else { rng.below(100) };
        let op = match choice {
            0..=11 => {
                let e = exp.get(&t).copied().unwrap_or(100);
                let kind = rng.below(6);
                let (expiry, slots) = match kind {
                    0 => (e, 500 + i),          // expiry not extended
                    1 => (e + 10, 0),           // slots not extended
                    _ => (e + 10 + rng.below(5), 500 + 10 * i),
                };
                if kind >= 2 || !registered.contains(&t) {
                    exp.insert(t, expiry);
                    if !registered.contains(&t) {
                        registered.push(t);
                    }
                }
                Op::Register { t, addr: rng.below(6), slots, start: 1 + i, expiry, sig: 200 + i }
            }
            12..=23 => Op::Receipt { t, l, slots: 400 - i, sb: 20 + i, usig: 300 + i, tsig: 400 + i },
            24..=41 => {
                pending.push((t, l));
                Op::Pending { t, l, blob: 10 + l + if rng.chance(1, 8) { 1 } else { 0 }, delay: 42 }
            }
            42..=49 => Op::Invalid { t, l, blob: 10 + l, delay: 42 },
            50..=61 => {
                pending.retain(|x| *x != (t, l));
                Op::MoveAccepted { t, l, slots: 400 - i, sb: 20 + i, usig: 300 + i, tsig: 400 + i }
            }
            62..=71 => {
                pending.retain(|x| *x != (t, l));
                Op::MoveInvalid { t, l, blob: 10 + l, delay: 42 }
            }
            72..=76 => {
                pending.retain(|x| *x != (t, l));
                Op::RemovePending { t, l }
            }
            77..=81 => Op::Misbehaving { t, l, sb: 20 + i, usig: 300 + i, tsig: 400 + i, rec: 100 + rng.below(3) },
            82..=89 => {
                registered.retain(|x| *x != t);
                pending.retain(|x| x.0 != t);
                exp.remove(&t);
                Op::Abandon { t }
            }
            90..=94 => Op::SetStatus { t, st: rng.below(5) },
            _ => Op::Reload,
        };
        ops.push(op);
    }
    ops
}

/// every case of the tier, in a fixed order: f(index, mode, nt, nl, ops)
fn for_each_case(seed: u64, thorough: bool, f: &mut dyn FnMut(u64, u64, u64, u64, &[Op])) -> u64 {
    let mut idx = 0u64;
    // exhaustive: every sequence (towers / locators in order of first use) up to length L from the empty store
    let lmax = env_u64("CS_LMAX", if thorough { 5 } else { 4 }) as usize;
    for len in 0..=lmax {
        enumerate(&[], len, 2, 2, &mut |ops| {
            f(idx, 1, 2, 2, ops);
            idx += 1;
        });
    }
    // ... and every sequence of length <= L2 after two registrations (total length L2 + 2)
    let two = [
        Op::Register { t: 0, addr: 0, slots: 50, start: 1, expiry: 60, sig: 198 },
        Op::Register { t: 1, addr: 1, slots: 50, start: 1, expiry: 60, sig: 199 },
    ];
    let l2 = env_u64("CS_L2", if thorough { 4 } else { 3 }) as usize;
    for len in 1..=l2 {
        enumerate(&two, len, 2, 2, &mut |ops| {
            f(idx, 1, 2, 2, ops);
            idx += 1;
        });
    }
    let nexh = idx;
    // random longer sequences over 3 towers x 4 locators, observed (and reloaded) after every operation
    let mut rng = Rng::new(seed ^ 0xC18);
    let nrand = env_u64("CS_NRAND", if thorough { 40000 } else { 3000 });
    for _ in 0..nrand {
        let len = 8 + rng.below(33) as usize;
        let c = random_case(&mut rng, 3, 4, len);
        f(idx, 0, 3, 4, &c);
        idx += 1;
    }
    nexh
}

fn main() {
    std::panic::set_hook(Box::new(|_| {}));
    let args: Vec<String> = std::env::args().collect();
    if args.len() < 4 {
        eprintln!("usage: client_store slice <k> <n> <scratch> (cases k mod n, to stdout) | replay <cases> <out> <scratch>");
        std::process::exit(2);
    }
    let seed = env_u64("VERIF_SEED", 0);
    let thorough = std::env::var("VERIF_TIER").map(|t| t == "thorough").unwrap_or(false);
    match args[1].as_str() {
        // SQLite serialises all connections of one process on a global mutex: parallelism is by process
        "slice" => {
            let k: u64 = args[2].parse().unwrap();
            let n: u64 = args[3].parse().unwrap();
            let scratch = PathBuf::from(&args[4]);
            let mut sut = Sut::new(&scratch.join(format!("w{k}")));
            let stdout = std::io::stdout();
            let mut out = std::io::BufWriter::with_capacity(1 << 20, stdout.lock());
            let nexh = for_each_case(seed, thorough, &mut |idx, mode, nt, nl, ops| {
                if idx % n == k {
                    let line = sut.run_case(mode, nt, nl, ops);
                    writeln!(out, "{line}").unwrap();
                }
            });
            if k == 0 {
                writeln!(out, "CSEXH {nexh}").unwrap();
            }
            out.flush().unwrap();
        }
        "replay" => {
            let text = std::fs::read_to_string(&args[2]).unwrap();
            let mut out = std::io::BufWriter::new(std::fs::File::create(&args[3]).unwrap());
            let scratch = PathBuf::from(&args[4]);
            let mut sut = Sut::new(&scratch.join("replay"));
            for line in text.lines() {
                let toks: Vec<&str> = line.split_whitespace().collect();
                if toks.first() != Some(&"CS") {
                    continue;
                }
                let end = toks.iter().position(|t| *t == "OBS").unwrap_or(toks.len());
                let nums: Vec<u64> = toks[1..end].iter().map(|t| t.parse().unwrap()).collect();
                let ops = parse_ops(&nums[3..]);
                // replays are always fully observed
                writeln!(out, "{}", sut.run_case(0, nums[1], nums[2], &ops)).unwrap();
            }
            out.flush().unwrap();
        }
        other => {
            eprintln!("unknown mode {other}");
            std::process::exit(2);
        }
    }
}
