//! Deterministic construction of real transactions / blocks from small abstract ids.
use bitcoin::absolute::LockTime;
use bitcoin::block::{Block, Header, Version};
use bitcoin::blockdata::script::{Builder, ScriptBuf};
use bitcoin::blockdata::transaction::{OutPoint, Transaction, TxIn, TxOut};
use bitcoin::hashes::Hash;
use bitcoin::merkle_tree::calculate_root;
use bitcoin::{Amount, BlockHash, Txid, Witness};

/// The transaction standing for abstract id `id`. `pad` bytes of OP_RETURN-like data enlarge it
/// (used to steer the encrypted blob length).
pub fn tx_of_id(id: u64, pad: usize) -> Transaction {
    let mut prev = [0u8; 32];
    prev[..8].copy_from_slice(&id.to_le_bytes());
    prev[31] = 0x5a;
    let mut outputs = vec![TxOut {
        script_pubkey: Builder::new().push_int(1).into_script(),
        value: Amount::from_sat(1000 + id),
    }];
    if pad > 0 {
        outputs.push(TxOut {
            script_pubkey: ScriptBuf::from_bytes(vec![0x6a; pad]),
            value: Amount::from_sat(0),
        });
    }
    Transaction {
        version: bitcoin::transaction::Version(2),
        lock_time: LockTime::from_height(0).unwrap(),
        input: vec![TxIn {
            previous_output: OutPoint::new(Txid::from_byte_array(prev), (id % 7) as u32),
            script_sig: ScriptBuf::new(),
            witness: Witness::new(),
            sequence: bitcoin::Sequence(0),
        }],
        output: outputs,
    }
}

/// Builds a block on top of `prev` holding `txs` (a coinbase-like filler is added when empty so the
/// merkle root exists). `salt` makes sibling blocks differ. The header satisfies its (trivial) PoW.
pub fn make_block(prev: BlockHash, time: u32, salt: u32, mut txs: Vec<Transaction>) -> Block {
    if txs.is_empty() {
        txs.push(tx_of_id(0xffff_0000_0000 + ((time as u64) << 8) + salt as u64, 0));
    }
    let bits = bitcoin::Target::from_be_bytes([0xff; 32]).to_compact_lossy();
    let hashes = txs.iter().map(|tx| tx.compute_txid().to_raw_hash());
    let mut header = Header {
        version: Version::from_consensus(salt as i32),
        prev_blockhash: prev,
        merkle_root: calculate_root(hashes).unwrap().into(),
        time,
        bits,
        nonce: 0,
    };
    while header.validate_pow(header.target()).is_err() {
        header.nonce += 1;
    }
    Block { header, txdata: txs }
}
