//! Event log for the C03 trace correspondence: every durable SQL statement the tower's own connection
//! executes (through rusqlite's trace hook), every node RPC and every block the chain monitor hands to
//! the listeners, each stamped with the number of H2 crash points passed so far - so that the events
//! can be placed between the crash-point labels (`teos_common::verif::labels`). Off unless enabled.
use std::sync::atomic::{AtomicBool, Ordering};
use std::sync::Mutex;

static ENABLED: AtomicBool = AtomicBool::new(false);
static EVENTS: Mutex<Vec<(u64, String)>> = Mutex::new(Vec::new());

pub fn enable(on: bool) {
    ENABLED.store(on, Ordering::SeqCst);
}

pub fn push(kind: &str) {
    if ENABLED.load(Ordering::SeqCst) {
        let c = teos_common::verif::count();
        EVENTS.lock().unwrap_or_else(|e| e.into_inner()).push((c, kind.to_string()));
    }
}

pub fn clear() {
    *LAST_SQL.lock().unwrap_or_else(|e| e.into_inner()) = (u64::MAX, String::new());
    EVENTS.lock().unwrap_or_else(|e| e.into_inner()).clear();
}

pub fn snapshot() -> Vec<(u64, String)> {
    EVENTS.lock().unwrap_or_else(|e| e.into_inner()).clone()
}

/// The kind of a durable statement: I/U/D + table initial (Users, Appointments, Trackers), BEGIN, COMMIT,
/// LKB (last_known_block), KEY; None for reads and schema statements.
pub fn classify(sql: &str) -> Option<&'static str> {
    let s = sql.trim_start().to_ascii_uppercase();
    let s = s.split_whitespace().collect::<Vec<_>>().join(" ");
    let table = |rest: &str| -> Option<char> {
        let t = rest.trim_start();
        if t.starts_with("USERS") {
            Some('U')
        } else if t.starts_with("APPOINTMENTS") {
            Some('A')
        } else if t.starts_with("TRACKERS") {
            Some('T')
        } else {
            None
        }
    };
    if s.starts_with("BEGIN") {
        return Some("BEGIN");
    }
    if s.starts_with("COMMIT") || s.starts_with("END") {
        return Some("COMMIT");
    }
    if s.starts_with("ROLLBACK") {
        return Some("ROLLBACK");
    }
    if let Some(r) = s.strip_prefix("INSERT OR REPLACE INTO ") {
        return if r.starts_with("LAST_KNOWN_BLOCK") { Some("LKB") } else { Some("I?") };
    }
    if let Some(r) = s.strip_prefix("INSERT INTO ") {
        if r.starts_with("KEYS") {
            return Some("KEY");
        }
        return match table(r) {
            Some('U') => Some("IU"),
            Some('A') => Some("IA"),
            Some('T') => Some("IT"),
            _ => Some("I?"),
        };
    }
    if let Some(r) = s.strip_prefix("UPDATE ") {
        return match table(r) {
            Some('U') => Some("UU"),
            Some('A') => Some("UA"),
            Some('T') => Some("UT"),
            _ => Some("U?"),
        };
    }
    if let Some(r) = s.strip_prefix("DELETE FROM ") {
        return match table(r) {
            Some('U') => Some("DU"),
            Some('A') => Some("DA"),
            Some('T') => Some("DT"),
            _ => Some("D?"),
        };
    }
    if s.starts_with("REPLACE") || s.starts_with("DROP") || s.starts_with("ALTER") {
        return Some("W?");
    }
    None
}

pub fn sql_trace(sql: &str) {
    if std::env::var("VERIF_SHOW_SQL").is_ok() {
        eprintln!("SQL[{}] {}", teos_common::verif::count(), &sql[..sql.len().min(90)]);
    }
    if let Some(k) = classify(sql) {
        // a statement that fires foreign-key actions (ON DELETE CASCADE) is reported once more, with the
        // same text, when the action's sub-program is entered: one statement, one event
        let c = teos_common::verif::count();
        let mut last = LAST_SQL.lock().unwrap_or_else(|e| e.into_inner());
        if last.0 == c && last.1 == sql {
            return;
        }
        *last = (c, sql.to_string());
        drop(last);
        push(k);
    }
}

static LAST_SQL: Mutex<(u64, String)> = Mutex::new((u64::MAX, String::new()));
