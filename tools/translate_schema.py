"""translate_schema.py — SQL schemas and the TowerStatus predicates of the CLN plugin.

Registers
  Gen/SchemaClient.v : the `TABLES` array of watchtower-plugin/src/dbm.rs as a `Db.schema` value
                       (tables in declaration order, arity, primary-key columns, foreign keys with
                       their ON DELETE action) plus `T_<table>` / `C_<table>_<column>` index constants;
  Gen/TowerStatus.v  : `enum TowerStatus`, its `is_*` predicates and its Display / serde names
                       from watchtower-plugin/src/lib.rs.

`parse_tables(rel)` / `schema_to_coq(tables, name)` are reusable for the tower's schema
(teos/src/dbm.rs has the same shape).  One strict shape per fragment; TranslateError otherwise.
"""
import re

import translate
from translate import TranslateError

IDENT = r"[A-Za-z_][A-Za-z0-9_]*"
COLTYPES = {"INT", "INTEGER", "TEXT", "BLOB", "BOOL"}


def _split_top(s):
    """split on commas that are not inside parentheses"""
    out, depth, cur = [], 0, []
    for ch in s:
        if ch == "(":
            depth += 1
        elif ch == ")":
            depth -= 1
        if ch == "," and depth == 0:
            out.append("".join(cur))
            cur = []
        else:
            cur.append(ch)
    if "".join(cur).strip():
        out.append("".join(cur))
    return [" ".join(x.split()) for x in out]


def _cols(s):
    cols = [c.strip() for c in s.split(",")]
    for c in cols:
        if not re.fullmatch(IDENT, c):
            raise TranslateError(f"column list {s!r}: bad column name {c!r}")
    return cols


def parse_create_table(stmt, rel):
    """-> dict(name, cols=[names], pk=[names], fks=[(cols, parent, pcols, action)])"""
    m = re.fullmatch(r"\s*CREATE TABLE IF NOT EXISTS (" + IDENT + r")\s*\((.*)\)\s*", stmt, re.S)
    if not m:
        raise TranslateError(f"{rel}: statement is not `CREATE TABLE IF NOT EXISTS name ( ... )`: {stmt[:60]!r}")
    name, body = m.group(1), m.group(2)
    # the foreign-key clauses of this code base are written without separating commas: cut them off first
    fk_re = re.compile(
        r"FOREIGN KEY\s*\(([^)]*)\)\s*REFERENCES\s+(" + IDENT + r")\s*\(([^)]*)\)\s*(?:ON DELETE (CASCADE|RESTRICT|NO ACTION|SET NULL|SET DEFAULT))?\s*,?",
        re.S,
    )
    fks = []
    for fm in fk_re.finditer(body):
        action = fm.group(4) or "NO ACTION"
        if action not in ("CASCADE", "NO ACTION", "RESTRICT"):
            raise TranslateError(f"{rel}: table {name}: ON DELETE {action} is not modelled")
        fks.append((_cols(fm.group(1)), fm.group(2), _cols(fm.group(3)), action))
    body = fk_re.sub("", body)
    if "FOREIGN" in body or "REFERENCES" in body:
        raise TranslateError(f"{rel}: table {name}: foreign key clause of an unknown shape")
    cols, pk = [], None
    for item in _split_top(body):
        if not item:
            continue
        pm = re.fullmatch(r"PRIMARY KEY\s*\(([^)]*)\)", item)
        if pm:
            if pk is not None:
                raise TranslateError(f"{rel}: table {name}: two primary keys")
            pk = _cols(pm.group(1))
            continue
        cm = re.fullmatch(r"(" + IDENT + r") (" + IDENT + r")((?: NOT NULL| PRIMARY KEY| AUTOINCREMENT)*)", item)
        if not cm or cm.group(2) not in COLTYPES:
            raise TranslateError(f"{rel}: table {name}: column definition of an unknown shape: {item!r}")
        cols.append(cm.group(1))
        if "PRIMARY KEY" in cm.group(3):
            if pk is not None:
                raise TranslateError(f"{rel}: table {name}: two primary keys")
            pk = [cm.group(1)]
    if pk is None:
        raise TranslateError(f"{rel}: table {name}: no primary key")
    if len(set(cols)) != len(cols):
        raise TranslateError(f"{rel}: table {name}: duplicate column")
    for c in pk:
        if c not in cols:
            raise TranslateError(f"{rel}: table {name}: primary key column {c} is not a column")
    return {"name": name, "cols": cols, "pk": pk, "fks": fks}


def parse_tables(rel):
    """The `const TABLES: [&str; N] = [ "..", ".." ];` array of a dbm.rs -> list of table dicts
    (CREATE INDEX statements are skipped: they do not change what a statement returns)."""
    src = translate.code(rel)
    m = re.search(r"const\s+TABLES\s*:\s*\[\s*&str\s*;\s*([0-9]+)\s*\]\s*=\s*\[(.*?)\]\s*;", src, re.S)
    if not m:
        raise TranslateError(f"{rel}: `const TABLES: [&str; N] = [...]` not found")
    n, body = int(m.group(1)), m.group(2)
    stmts = re.findall(r'"((?:[^"\\]|\\.)*)"', body, re.S)
    rest = re.sub(r'"((?:[^"\\]|\\.)*)"', "", body, flags=re.S)
    if rest.replace(",", "").strip():
        raise TranslateError(f"{rel}: TABLES contains something that is not a string literal: {rest.strip()[:40]!r}")
    if len(stmts) != n:
        raise TranslateError(f"{rel}: TABLES declares {n} statements, found {len(stmts)}")
    tables = []
    for s in stmts:
        s = s.replace("\\\n", " ")
        if re.match(r"\s*CREATE INDEX IF NOT EXISTS ", s):
            continue
        tables.append(parse_create_table(s, rel))
    names = [t["name"] for t in tables]
    if len(set(names)) != len(names):
        raise TranslateError(f"{rel}: duplicate table name")
    for i, t in enumerate(tables):
        for cols, parent, pcols, _a in t["fks"]:
            if parent not in names:
                raise TranslateError(f"{rel}: table {t['name']}: foreign key to unknown table {parent}")
            pi = names.index(parent)
            if pi >= i:
                raise TranslateError(f"{rel}: table {t['name']}: parent table {parent} is not declared before it "
                                     "(Db.v computes cascades in declaration order)")
            p = tables[pi]
            for c in cols:
                if c not in t["cols"]:
                    raise TranslateError(f"{rel}: table {t['name']}: foreign key column {c} is not a column")
            for c in pcols:
                if c not in p["cols"]:
                    raise TranslateError(f"{rel}: table {t['name']}: referenced column {parent}.{c} does not exist")
            if len(cols) != len(pcols):
                raise TranslateError(f"{rel}: table {t['name']}: foreign key arity mismatch")
            if sorted(pcols) != sorted(p["pk"]):
                raise TranslateError(f"{rel}: table {t['name']}: foreign key does not reference the primary key of {parent}")
    return tables


def _natlist(xs):
    return "[" + "; ".join(f"{x}%nat" for x in xs) + "]"


def schema_to_coq(tables, value_name, rel):
    names = [t["name"] for t in tables]
    L = [f"(* GENERATED by tools/translate_schema.py from /repo/{rel} — do not edit. *)",
         "From TeosModel Require Import Base Db.", ""]
    for i, t in enumerate(tables):
        L.append(f"(* table {i}: {t['name']}({', '.join(t['cols'])})  primary key ({', '.join(t['pk'])}) *)")
        L.append(f"Definition T_{t['name']} : nat := {i}%nat.")
        for j, c in enumerate(t["cols"]):
            L.append(f"Definition C_{t['name']}_{c} : nat := {j}%nat.")
    L.append("")
    L.append(f"Definition {value_name} : schema := [")
    items = []
    for t in tables:
        fks = []
        for cols, parent, pcols, action in t["fks"]:
            p = tables[names.index(parent)]
            # the referenced columns in the order of the parent's primary key, child columns permuted alike
            pairs = sorted(zip(pcols, cols), key=lambda pc: p["pk"].index(pc[0]))
            ccols = [t["cols"].index(c) for _p, c in pairs]
            ppcols = [p["cols"].index(pc) for pc, _c in pairs]
            fks.append("mk_fkey %s %d%%nat %s %s" % (_natlist(ccols), names.index(parent), _natlist(ppcols),
                                                      "true" if action == "CASCADE" else "false"))
        items.append("  (* %s *) mk_tschema %d%%nat %s [%s]" % (
            t["name"], len(t["cols"]), _natlist([t["cols"].index(c) for c in t["pk"]]), ";\n      ".join(fks)))
    L.append(";\n".join(items))
    L.append("].")
    L.append("")
    return "\n".join(L) + "\n"


@translate.register("SchemaClient.v")
def gen_schema_client():
    rel = "watchtower-plugin/src/dbm.rs"
    tables = parse_tables(rel)
    expected = ["towers", "appointments", "pending_appointments", "invalid_appointments",
                "registration_receipts", "appointment_receipts", "misbehaving_proofs", "keys"]
    got = [t["name"] for t in tables]
    if got != expected:
        raise TranslateError(f"{rel}: tables are {got}, the client model is written for {expected}")
    return schema_to_coq(tables, "client_schema", rel)


# ------------------------------------------------------------------ TowerStatus (lib.rs)
def _snake(name):
    return re.sub(r"(?<!^)([A-Z])", r"_\1", name).lower()


@translate.register("TowerStatus.v")
def gen_tower_status():
    rel = "watchtower-plugin/src/lib.rs"
    src = translate.code(rel)
    m = re.search(r"((?:#\[[^\]]*\]\s*)*)pub enum TowerStatus\s*\{([^}]*)\}", src)
    if not m:
        raise TranslateError(f"{rel}: enum TowerStatus not found")
    attrs = m.group(1)
    if 'rename_all = "snake_case"' not in attrs:
        raise TranslateError(f"{rel}: TowerStatus is expected to serialise with rename_all = \"snake_case\"")
    variants = [v.strip() for v in m.group(2).split(",") if v.strip()]
    for v in variants:
        if not re.fullmatch(r"[A-Z][A-Za-z0-9]*", v):
            raise TranslateError(f"{rel}: TowerStatus variant of an unknown shape: {v!r}")
    im = re.search(r"impl TowerStatus\s*\{(.*?)\n\}", src, re.S)
    if not im:
        raise TranslateError(f"{rel}: impl TowerStatus not found")
    body = im.group(1)
    preds = []
    fn_re = re.compile(r"pub fn (is_[a-z_]+)\(&self\)\s*->\s*bool\s*\{(.*?)\}", re.S)
    known = {}
    for fm in fn_re.finditer(body):
        name, b = fm.group(1), " ".join(fm.group(2).split())
        em = re.fullmatch(r"\*self == TowerStatus::([A-Za-z0-9]+)", b)
        if em:
            if em.group(1) not in variants:
                raise TranslateError(f"{rel}: {name} compares with unknown variant {em.group(1)}")
            known[name] = [em.group(1)]
            preds.append((name, known[name]))
            continue
        parts = [p.strip() for p in b.split("||")]
        vs = []
        for p in parts:
            cm = re.fullmatch(r"self\.(is_[a-z_]+)\(\)", p)
            if not cm or cm.group(1) not in known:
                raise TranslateError(f"{rel}: body of TowerStatus::{name} has an unknown shape: {b!r}")
            vs += known[cm.group(1)]
        known[name] = vs
        preds.append((name, vs))
    rest = fn_re.sub("", body)
    if "fn " in rest:
        raise TranslateError(f"{rel}: impl TowerStatus has a method of an unknown shape")
    for need in ("is_reachable", "is_temporary_unreachable", "is_unreachable", "is_misbehaving",
                 "is_subscription_error", "is_retryable"):
        if need not in known:
            raise TranslateError(f"{rel}: TowerStatus::{need} not found")
    # Display names
    dm = re.search(r"impl fmt::Display for TowerStatus\s*\{.*?match self\s*\{(.*?)\}", src, re.S)
    if not dm:
        raise TranslateError(f"{rel}: Display for TowerStatus not found")
    disp = dict(re.findall(r"TowerStatus::([A-Za-z0-9]+)\s*=>\s*\"([^\"]*)\"", dm.group(1)))
    if sorted(disp) != sorted(variants):
        raise TranslateError(f"{rel}: Display for TowerStatus does not cover exactly the variants")
    L = [f"(* GENERATED by tools/translate_schema.py from /repo/{rel} — do not edit. *)",
         "From TeosModel Require Import Base.", "",
         "Inductive tower_status := " + " | ".join(variants) + ".", ""]
    L.append("Definition tower_status_code (s : tower_status) : N :=")
    L.append("  match s with " + " | ".join(f"{v} => {i}" for i, v in enumerate(variants)) + " end.")
    L.append("Definition all_tower_status : list tower_status := [" + "; ".join(variants) + "].")
    L.append("(* serde (listtowers / gettowerinfo): " + ", ".join(f"{v} -> \"{_snake(v)}\"" for v in variants) + " *)")
    L.append("(* Display: " + ", ".join(f"{v} -> \"{disp[v]}\"" for v in variants) + " *)")
    L.append("")
    for name, vs in preds:
        L.append(f"Definition {name} (s : tower_status) : bool :=")
        L.append("  match s with " + " | ".join(f"{v} => true" for v in dict.fromkeys(vs)) +
                 (" | _ => false" if len(set(vs)) < len(variants) else "") + " end.")
    L.append("")
    return "\n".join(L) + "\n"


def status_names():
    """variant -> (index, serde name); used by the harness-side tools to canonicalise RPC answers"""
    rel = "watchtower-plugin/src/lib.rs"
    src = translate.code(rel)
    m = re.search(r"pub enum TowerStatus\s*\{([^}]*)\}", src)
    if not m:
        raise TranslateError(f"{rel}: enum TowerStatus not found")
    variants = [v.strip() for v in m.group(1).split(",") if v.strip()]
    return {v: (i, _snake(v)) for i, v in enumerate(variants)}
