"""slots_check.py — the slot-formula slice of C07: the f32 code of
teos_common::appointment::compute_appointment_slots against (a) the exact ceiling, swept
exhaustively in Rust over 0..=2^24+2^16, and (b) the extracted Flocq binary32 model (Slots.v).

Use from a property check (tools/props/c07.py owns the verdict):

    import slots_check
    TARGETS += slots_check.SLOTS_TARGETS                  # theories/Properties/C07_slots.v
    ctx.coq_hygiene(TARGETS, res, allow_axioms=slots_check.SLOTS_AXIOMS)
    cov["trusted_base"] += slots_check.SLOTS_TRUSTED
    slots_check.run_slots(ctx)                            # before ctx.finish(...)

run_slots(ctx) builds the cargo bin `slots` and the OCaml driver, runs both, fills ctx.coverage
(keys prefixed `slots_`), appends one ctx.add_violation per failing monitor class and
ctx.broken entries for correspondence failures.  Violation keys:
    {"kind": "slots-zero-blob"}            compute_appointment_slots(0, max) = 0 < 1
                                           ("never less than one slot" fails for the empty blob)
    {"kind": "slots-monitor", "n": n}      0 <= n <= 2^24 and the real value is not ceil(n / max)
Replay objects: {"kind": "slots", "case": "SL <n>"} -> replay_slots(ctx, obj).
"""
import os

import vlib

SLOTS_TARGETS = ["theories/Properties/C07_slots.v"]
# exactly what Print Assumptions shows for the theorems that mention the Flocq definitions
# (their correctness proofs are inside binary_normalize / Bdiv / Bnearbyint): the Coq standard
# library's axioms of the classical real numbers.  Nothing is declared under coq/.
SLOTS_AXIOMS = (
    "ClassicalDedekindReals.sig_forall_dec",
    "ClassicalDedekindReals.sig_not_dec",
    "FunctionalExtensionality.functional_extensionality_dep",
    "Classical_Prop.classic",
)
SLOTS_TRUSTED = [
    "Flocq 4.1.0 (IEEE754.BinarySingleNaN at prec 24 / emax 128) as the meaning of Rust's f32 `as`, `/`, `.ceil()`; "
    "Rust's saturating float->u32 `as` (NaN -> 0) restated in Slots.f32_to_u32",
    "Coq standard-library axioms reported by Print Assumptions (via Flocq/Reals): " + ", ".join(SLOTS_AXIOMS),
    "tonic's default 4 MiB decoding limit (tonic-0.11.0 src/codec/mod.rs DEFAULT_MAX_RECV_MESSAGE_SIZE) restated by hand "
    "in Slots.TONIC_DEFAULT_MAX_RECV_MESSAGE_SIZE (not generated: /repo never sets it)",
    "harness/src/bin/slots/main.rs: calls the real teos_common::appointment::compute_appointment_slots with the real "
    "ENCRYPTED_BLOB_MAX_SIZE; exact ceiling in u128 integer arithmetic; coq/extraction/drv_slots.ml: parsing, comparison, "
    "closed form in native integers",
    "the machine's f32 arithmetic is IEEE-754 binary32 (x86-64 SSE): this is what the correspondence run tests",
]
RULE = ("exhaustive in Rust: every n in 0..=2^24+2^16 through the real function at the real ENCRYPTED_BLOB_MAX_SIZE against "
        "(n+max-1)/max in integer arithmetic (all disagreeing n listed). Model side (extracted Flocq binary32 model evaluated and "
        "compared with the real function's value): every n within +-2 of every multiple of 2048 up to 2^24+2^16, 0..100, EVERY n in "
        "2^24-300..=2^24+2^16 (so, with C07_slots_exact for n <= 2^24, model = implementation on the whole swept range), the "
        "transport caps, random n in [0,2^24], random n up to 2^32, n around the u32 saturation point 2^43 and huge usize values "
        "up to 2^64-1; other divisors (0 -> inf/NaN, non powers of two, huge) as correspondence only (kind SLD). "
        "distinct = distinct (n, divisor); non-trivial = the real function returned >= 1")


def _sweep_of(cases):
    """The exhaustive Rust sweep's own result lines (SLSWEEP + the SLWRONG list), read directly:
    the verdict on [0, 2^24] does not depend on the OCaml driver being buildable."""
    rc, out, _ = vlib.sh(f"grep -m1 '^SLSWEEP' {cases}; grep '^SLWRONG' {cases} | head -1000", timeout=120)
    sweep, wrong = None, []
    for l in out.splitlines():
        t = l.split()
        if t and t[0] == "SLSWEEP" and len(t) == 8:
            sweep = dict(zip(("upto", "evaluated", "wrong", "wrong_le_2p24", "first", "last", "panics"), map(int, t[1:])))
        elif t and t[0] == "SLWRONG" and len(t) == 4:
            wrong.append((int(t[1]), int(t[2]), int(t[3])))
    return sweep, wrong


def _run_once(ctx, tier, label, have_driver):
    cases = os.path.join(ctx.work, "slots_cases.txt")
    rc, out, dt_h = vlib.sh([ctx.bin("slots"), "run", cases],
                            env={"VERIF_TIER": tier, "VERIF_SEED": str(ctx.seed)}, timeout=1200)
    if rc != 0:
        ctx.broken.append({"kind": "correspondence", "what": "slots harness failed", "detail": out[-800:]})
        return None, [], cases
    if not have_driver:
        return None, [], cases
    rc, out, dt_d = vlib.sh([vlib.DRIVER, cases], timeout=2400)
    summ = vlib.parse_summary(out).get("SL")
    fails = [l for l in out.splitlines() if l.startswith("FAIL")]
    if rc != 0 or summ is None:
        ctx.broken.append({"kind": "correspondence", "what": f"driver failed on {label}", "detail": out[-800:]})
        return None, fails, cases
    summ["harness_s"] = round(dt_h, 2)
    summ["driver_s"] = round(dt_d, 2)
    ctx.log(f"{label}: {summ}")
    return summ, fails, cases


def _field(line, name):
    for tok in line.split():
        if tok.startswith(name + "="):
            return tok[len(name) + 1:]
    return None


def run_slots(ctx, report_zero_blob=True, build=True):
    """Run the slot-formula correspondence + monitor.  Returns the driver summary (dict) or None.
    report_zero_blob=False drops the n = 0 class (for a caller that decides the "never less than
    one slot" clause at the API level instead)."""
    cov = ctx.coverage
    have_driver = True
    if build:
        if not ctx.cargo_build(["slots"]):
            return None
        have_driver = ctx.ocaml_build()
    tiers = ["quick", "thorough"] if ctx.tier == "thorough" else ["quick"]
    total = None
    mon_lines, corr_lines = [], []
    samples = []
    for t in tiers:
        summ, fails, cases = _run_once(ctx, t, f"slots[{t}]", have_driver)
        if summ is None:
            # no driver (extraction broken on this tree): the Rust sweep alone still decides [0, 2^24]
            sweep, wrong = _sweep_of(cases) if os.path.exists(cases) else (None, [])
            if sweep:
                cov["slots_sweep"] = sweep
                ctx.log(f"slots[{t}] (no driver): sweep {sweep}")
                for n, v, ex in [w for w in wrong if 1 <= w[0] <= 2 ** 24][:1]:
                    detail = f"sweep: n={n} exact={ex} impl={v}"
                    ctx.add_violation("compute_appointment_slots differs from ceil(n / ENCRYPTED_BLOB_MAX_SIZE) inside [0, 2^24]: " + detail,
                                      {"kind": "slots", "case": f"SL {n}", "detail": detail}, {"kind": "slots-monitor", "n": n})
            break
        mon_lines += [f for f in fails if f.startswith("FAIL mon")]
        corr_lines += [f for f in fails if not f.startswith("FAIL mon")]
        if summ["corr_fail"] and not corr_lines:
            corr_lines.append(f"FAIL corr (lines suppressed) count={summ['corr_fail']}")
        # the sweep and the monitor must tell the same story
        if summ["sweep_wrong_le_2p24"] > 0 and summ["mon_fail"] == 0:
            ctx.broken.append({"kind": "correspondence",
                               "what": "the Rust sweep found wrong values at or below 2^24 but the monitor saw none",
                               "detail": str(summ)})
        if not samples:
            rc2, out2, _ = vlib.sh(f"grep -m1 '^SLSWEEP' {cases}; grep -m1 '^SL 2049 ' {cases}; grep -m1 '^SL 16777217 ' {cases}; "
                                   f"grep -m1 '^SL 18446744073709551615 ' {cases}; grep -m1 '^SLD 1 0 ' {cases}; "
                                   f"grep '^SLWRONG' {cases} | head -2", timeout=60)
            samples = [l for l in out2.splitlines() if l.strip()][:8]
            wr, outw, _ = vlib.sh(f"grep '^SLWRONG' {cases} | cut -d' ' -f2 | head -64 | tr '\\n' ' '", timeout=60)
            cov["slots_sweep_wrong_n"] = outw.split()
        if total is None:
            total = dict(summ)
        else:
            for k in ("cases", "sld_cases", "distinct_nontrivial", "in_range", "above_range", "model_evals", "saturated",
                      "corr_fail", "mon_fail", "thm_fail"):
                total[k] += summ[k]
            total["harness_s"] += summ["harness_s"]
            total["driver_s"] += summ["driver_s"]
        # a broken tie in the quick tier widens the search to the thorough generator
        if (corr_lines or summ["thm_fail"]) and summ["mon_fail"] == 0 and t == "quick" and "thorough" not in tiers:
            tiers.append("thorough")
    if total:
        cov["slots_evaluations"] = total["cases"] + total["sld_cases"]
        cov["slots_model_evaluations"] = total["model_evals"]
        cov["slots_distinct_nontrivial"] = total["distinct_nontrivial"]
        cov["slots_traces_validated_against_impl"] = total["cases"] + total["sld_cases"]
        cov["slots_monitored_in_exact_range"] = total["in_range"]
        cov["slots_above_2p24_correspondence_only"] = total["above_range"]
        cov["slots_other_divisors_correspondence_only"] = total["sld_cases"]
        cov["slots_saturated_u32_max"] = total["saturated"]
        cov["slots_blob_max_size"] = total["blob_max"]
        cov["slots_exhaustive"] = True
        cov["slots_sweep"] = {"upto": total["sweep_upto"], "evaluated": total["sweep_evaluated"],
                              "real_ne_exact": total["sweep_wrong"], "real_ne_exact_le_2p24": total["sweep_wrong_le_2p24"],
                              "first": total["sweep_first_wrong"], "last": total["sweep_last_wrong"],
                              "panics": total["sweep_panics"], "model_agrees_on_wrong": total["sweep_wrong_model_agrees"]}
        cov["slots_rule"] = RULE
        cov["slots_samples"] = samples
        cov["slots_times_s"] = {"harness": round(total["harness_s"], 2), "driver": round(total["driver_s"], 2)}
    if corr_lines:
        ctx.broken.append({"kind": "correspondence",
                           "what": "Flocq model of compute_appointment_slots and the implementation disagree",
                           "first": corr_lines[0][:600], "count": total["corr_fail"] + total["thm_fail"] if total else len(corr_lines)})
    seen_formula = 0
    seen_zero = False
    for f in mon_lines:
        cls = _field(f, "class")
        case = f.split("case=", 1)[1].strip() if "case=" in f else "SL 0"
        detail = f.split(" case=")[0]
        if cls == "zero-blob":
            if report_zero_blob and not seen_zero:
                seen_zero = True
                ctx.add_violation("compute_appointment_slots(0, ENCRYPTED_BLOB_MAX_SIZE) = 0: an empty blob is charged less than one slot",
                                  {"kind": "slots", "case": case, "detail": detail}, {"kind": "slots-zero-blob"})
        elif seen_formula < 5:
            seen_formula += 1
            n = _field(f, "n")
            ctx.add_violation("compute_appointment_slots differs from ceil(n / ENCRYPTED_BLOB_MAX_SIZE) inside [0, 2^24]: " + detail,
                              {"kind": "slots", "case": case, "detail": detail},
                              {"kind": "slots-monitor", "n": int(n) if n and n.lstrip("-").isdigit() else n})
    if total and total["mon_fail"] > 0 and seen_formula == 0:
        ctx.broken.append({"kind": "correspondence", "what": "the driver counted monitor failures but printed none",
                           "detail": str(total)})
    return total


def replay_slots(ctx, obj):
    """Re-run one recorded case through the real function and the driver; 1 = monitor still fails."""
    if not (ctx.cargo_build(["slots"]) and ctx.ocaml_build()):
        return 2
    cf = os.path.join(ctx.work, "slots_replay_case.txt")
    open(cf, "w").write(obj["case"] + " OBS\n")
    out_f = os.path.join(ctx.work, "slots_replay_out.txt")
    vlib.sh([ctx.bin("slots"), "replay", cf, out_f])
    print(open(out_f).read(), end="")
    rc, out, _ = vlib.sh([vlib.DRIVER, out_f])
    print(out)
    return 1 if "FAIL mon" in out else 0
