#!/bin/bash
# seedtest.sh <patch.diff> <Cxx> [<Cyy> ...]   — try a seeded change WITHOUT touching /repo:
#   a scratch git worktree of /repo (at /repo's HEAD) gets the patch, a scratch worktree of /verif (at /verif's
#   HEAD + uncommitted tools/coq/harness changes synced in) runs the named checks with VERIF_REPO pointing at it.
# Prints, per check, the exit code and the VIOLATION / KNOWN-FINDING lines.  Scratch copies live under /work/seed
# (repo copy: /work/seed/repo, framework copy: /work/seed/verif) and are reused between calls (incremental builds);
# `seedtest.sh --clean` removes them.
set -u
ROOT=/work/seed
if [ "${1:-}" = "--clean" ]; then
  git -C /repo worktree remove --force $ROOT/repo 2>/dev/null
  git -C /verif worktree remove --force $ROOT/verif 2>/dev/null
  rm -rf $ROOT
  exit 0
fi
PATCH=$(realpath "$1"); shift
mkdir -p $ROOT
[ -d $ROOT/repo ] || git -C /repo worktree add -q --detach $ROOT/repo HEAD
[ -d $ROOT/verif ] || git -C /verif worktree add -q --detach $ROOT/verif HEAD
git -C $ROOT/repo checkout -q --detach "$(git -C /repo rev-parse HEAD)" && git -C $ROOT/repo checkout -q -- . && git -C $ROOT/repo clean -fdq -e target
rsync -a --delete --exclude .git --exclude .build --exclude evidence --exclude replay --exclude 'coq/**/*.vo*' --exclude 'coq/**/*.glob' \
  --exclude 'coq/**/*.aux' --exclude 'coq/Makefile*' --exclude 'coq/.*' --exclude 'coq/_CoqProject' --exclude 'coq/theories/Gen/*.v' --exclude __pycache__ /verif/ $ROOT/verif/
mkdir -p $ROOT/verif/evidence $ROOT/verif/replay
if [ "$PATCH" != "/dev/null" ]; then
  git -C $ROOT/repo apply "$PATCH" || { echo "PATCH DOES NOT APPLY"; exit 3; }
fi
cd $ROOT/verif
for c in "$@"; do
  t0=$(date +%s)
  VERIF_REPO=$ROOT/repo timeout 3000 ./vcheck "$c" --tier "${SEED_TIER:-quick}" > $ROOT/$c.log 2>&1
  rc=$?
  echo "== $c rc=$rc ($(( $(date +%s) - t0 ))s)"
  grep -E "^(VIOLATION|KNOWN-FINDING)" $ROOT/$c.log | cut -c1-400
  grep -E "no longer checks|broken|disagree" $ROOT/$c.log | head -5 | cut -c1-300
done
git -C $ROOT/repo checkout -q -- .
