#!/usr/bin/env python3
"""make_pins.py — (re)write tools/pins.json: a hash of the statement of every `Theorem` in coq/theories/Properties/*.v.
vlib.check_pins compares on every run, so a property theorem cannot be weakened silently (a changed statement is
reported as a broken obligation until the pins are regenerated on purpose and committed)."""
import hashlib
import json
import os
import re
import sys

HERE = os.path.dirname(os.path.abspath(__file__))
sys.path.insert(0, HERE)
import vlib  # noqa: E402

pins = {}
pdir = os.path.join(vlib.COQ, "theories", "Properties")
for fn in sorted(os.listdir(pdir)):
    if not fn.endswith(".v"):
        continue
    src = vlib.strip_coq_comments(open(os.path.join(pdir, fn)).read())
    for m in re.finditer(r"\b(Theorem)\s+([A-Za-z0-9_']+)(.*?)\bProof\.", src, re.S):
        name, stmt = m.group(2), " ".join(m.group(3).split())
        pins[name] = hashlib.sha256(stmt.encode()).hexdigest()[:16]
json.dump(pins, open(os.path.join(HERE, "pins.json"), "w"), indent=0, sort_keys=True)
print(len(pins), "theorem statements pinned")
