"""Shared check logic of the properties decided on the sequential tower model
(C01, C02, C04, C06, C07, C08, C09, C11): one harness run of the real tower on generated
histories, the extracted model next to it, the extracted monitors on the implementation's trace."""
import json
import os
import re
import vlib

NSHARDS = 16

TRUSTED_TOWER = [
    "Coq 8.16.1 kernel (coqc; vm_compute in Examples); Print Assumptions of every property theorem is re-run on each check",
    "tools/translate.py: constants (IRREVOCABLY_RESOLVED, CONFIRMATIONS_BEFORE_RETRY, ENCRYPTED_BLOB_MAX_SIZE, RPC error codes), "
    "listener order and index sizes from teos/src/main.rs, regenerated into Gen/Consts.v on every run",
    "extraction with ExtrOcamlBasic only; coq/extraction/driver_util.ml, drv_tower.ml (parsing, canonical sorting, comparison)",
    "harness/src/{world,simnode,simchain}.rs + bin/tower: drives the real Gatekeeper/Watcher/Responder/Carrier/InternalAPI "
    "(tonic service methods called in-process) on a sqlite file with an in-process jsonrpc Transport as bitcoind",
    "modelled, not verified: SQLite (PK/FK enforcement, ON DELETE CASCADE, statement atomicity), rust-bitcoin, secp256k1 "
    "recoverable ECDSA and ChaCha20-Poly1305 (abstracted: tx = id, blob = {key, payload, length}, request carries its signer), "
    "RIPEMD160 UUID injectivity (UUID = (locator, user)), HashMap iteration order (shown irrelevant by per-transaction node scripts)",
    "the f32 slot formula is replaced by ceil(n/2048) in Tower.v; Slots.v (property C07) proves them equal for n <= 2^24",
]

# which observation fields of a correspondence failure matter for which property
FIELDS = {
    "C01": {"result", "rpc", "apps", "trks"},
    "C02": {"rpc", "trks", "result"},
    "C04": {"rpc", "trks", "users", "result"},
    "C06": {"result", "users", "apps", "trks"},
    "C07": {"result", "users", "mem", "apps"},
    "C08": {"result", "apps", "trks"},
    "C09": {"result", "users", "mem"},
    "C11": {"result", "rpc", "users", "apps", "trks", "mem", "locks"},
}


def listener_order_env():
    """LISTENER_ORDER as the translator read it from main.rs (so the harness calls the listeners in
    the order the daemon would)."""
    p = os.path.join(vlib.COQ, "theories", "Gen", "Consts.v")
    try:
        m = re.search(r"LISTENER_ORDER : list Z := \[([^\]]*)\]", open(p).read())
        if m:
            return ",".join(x.strip().replace("%Z", "") for x in m.group(1).split(";"))
    except OSError:
        pass
    return "0,1,2"


def run_harness(ctx, cases, tier, profile="mixed", tag="q"):
    """Runs the tower harness in NSHARDS processes, concatenates, runs the driver. Returns (summary, fails)."""
    import subprocess
    outs = [os.path.join(ctx.work, f"tw-{tag}-{i}.txt") for i in range(NSHARDS)]
    env = dict(os.environ, VERIF_SEED=str(ctx.seed), VERIF_TIER=tier, VERIF_CASES=str(cases),
               VERIF_PROFILE=profile, VERIF_LISTENER_ORDER=listener_order_env())
    procs = [subprocess.Popen([ctx.bin("tower"), "gen", outs[i], str(i), str(NSHARDS)], env=env,
                              stdout=subprocess.DEVNULL, stderr=subprocess.DEVNULL) for i in range(NSHARDS)]
    bad = [p.wait() for p in procs]
    if any(bad):
        ctx.broken.append({"kind": "correspondence", "what": f"tower harness exited with {bad}"})
        return None, []
    allf = os.path.join(ctx.work, f"tw-{tag}.txt")
    with open(allf, "w") as w:
        for o in outs:
            with open(o) as f:
                w.write(f.read())
            os.remove(o)
    rc, out, dt = vlib.sh([vlib.DRIVER, allf], timeout=3000)
    open(allf + ".out", "w").write(out)
    summ = vlib.parse_summary(out).get("TW")
    fails = [l for l in out.splitlines() if l.startswith("FAIL")]
    if rc != 0 or summ is None:
        ctx.broken.append({"kind": "correspondence", "what": "driver failed on tower histories", "detail": out[-800:]})
        return None, fails
    ctx.log(f"tower[{tag}] {cases} histories: steps={summ['steps']} rpcs={summ['rpcs']} corr_fail={summ['corr_fail']} "
            f"mon_fail={summ['mon_fail']} aborts={summ['aborts_impl']} mon={summ.get('mon', '')}")
    return (summ, allf), fails


CORPUS = os.path.join(vlib.VERIF, "corpus", "tower")


def run_corpus(ctx):
    """The committed corpus of minimised histories (corpus/tower/*.txt, TW case lines) runs first, on the real tower."""
    cases = os.path.join(ctx.work, "corpus-cases.txt")
    with open(cases, "w") as w:
        for fn in sorted(os.listdir(CORPUS)):
            if fn.endswith(".txt"):
                for l in open(os.path.join(CORPUS, fn)):
                    if l.startswith("TW "):
                        w.write(l if l.endswith("\n") else l + "\n")
    out_f = os.path.join(ctx.work, "tw-c.txt")
    rc, out, _ = vlib.sh([ctx.bin("tower"), "replay", cases, out_f], env={"VERIF_LISTENER_ORDER": listener_order_env()}, timeout=900)
    if rc != 0 or not os.path.exists(out_f):
        ctx.broken.append({"kind": "correspondence", "what": f"tower harness failed on the corpus (rc={rc})", "detail": out[-500:]})
        return None, []
    rc, out, dt = vlib.sh([vlib.DRIVER, out_f], timeout=900)
    open(out_f + ".out", "w").write(out)
    summ = vlib.parse_summary(out).get("TW")
    fails = [l for l in out.splitlines() if l.startswith("FAIL")]
    if rc != 0 or summ is None:
        ctx.broken.append({"kind": "correspondence", "what": "driver failed on the tower corpus", "detail": out[-800:]})
        return None, fails
    ctx.log(f"tower[corpus] {summ['cases']} histories: corr_fail={summ['corr_fail']} mon_fail={summ['mon_fail']} mon={summ.get('mon', '')}")
    return (summ, out_f), fails


def parse_fail(l):
    d = {"raw": l}
    m = re.match(r"FAIL (\w+) (.*?) case=(.*)$", l)
    if not m:
        return d
    d["kind"] = m.group(1)
    d["case"] = m.group(3).strip()
    for tok in m.group(2).split():
        if "=" in tok:
            a, b = tok.split("=", 1)
            d[a] = b
    mm = re.search(r"model=\[(.*?)\] impl=\[(.*?)\]", m.group(2))
    if mm:
        d["model"], d["impl"] = mm.group(1), mm.group(2)
    return d


def check(ctx, pid, targets, mon_codes, known_codes=None, allow_axioms=(), extra_trusted=(), quick_cases=6400,
          thorough_cases=160000, rule_extra="", extra_run=None):
    """mon_codes: monitor failure codes that are violations of this property, e.g. {"C01"}.
    known_codes: {code: key-dict} failure codes that are known-finding classes."""
    known_codes = known_codes or {}
    thorough = ctx.tier == "thorough"
    ctx.translate()
    res = ctx.coq_build(targets)
    ctx.coq_hygiene(targets, res, allow_axioms=allow_axioms)
    ok_h = ctx.cargo_build(["tower"])
    ok_o = ctx.ocaml_build()
    cov = ctx.coverage
    cov["checker_cmd"] = "cd /verif/coq && make " + " ".join(t[:-2] + ".vo" for t in targets) + "   (coqc 8.16.1, full .vo build)"
    cov["trusted_base"] = TRUSTED_TOWER + list(extra_trusted)
    if ok_h and ok_o:
        plan = [("quick", quick_cases, "mixed", "q")]
        if os.path.isdir(CORPUS) and any(f.endswith(".txt") for f in os.listdir(CORPUS)):
            plan.insert(0, ("corpus", 0, "corpus", "c"))
        if thorough:
            plan.append(("thorough", thorough_cases, "mixed", "t"))
        i = 0
        found = False
        while i < len(plan):
            tier, cases, profile, tag = plan[i]
            i += 1
            r, fails = run_corpus(ctx) if tier == "corpus" else run_harness(ctx, cases, tier, profile, tag)
            if r is None:
                break
            summ, allf = r
            pf = [parse_fail(f) for f in fails]
            mine = [f for f in pf if f.get("kind") == "mon" and f.get("prop") in mon_codes]
            known = [f for f in pf if f.get("kind") == "mon" and f.get("prop") in known_codes]
            corr = [f for f in pf if f.get("kind") in ("corr", "parse") and (f.get("field") in FIELDS.get(pid, set()) or f.get("kind") == "parse")]
            cov["evaluations"] += summ["cases"]
            cov["traces_validated_against_impl"] += summ["cases"]
            cov["distinct_nontrivial"] += summ["distinct_nontrivial"]
            cov["steps"] = cov.get("steps", 0) + summ["steps"]
            cov["rpcs_observed"] = cov.get("rpcs_observed", 0) + summ["rpcs"]
            cov["histories_with_breach"] = cov.get("histories_with_breach", 0) + summ["breach_cases"]
            cov["histories_with_reorg"] = cov.get("histories_with_reorg", 0) + summ["reorg_cases"]
            cov["op_histogram"] = summ.get("ops", "")
            cov["reply_histogram"] = summ.get("results", "")
            cov["monitor_failures_all_properties"] = summ.get("mon", "")
            m = re.search(r"^LOCKEDGES (.*)$", open(allf + ".out").read(), re.M) if os.path.exists(allf + ".out") else None
            if m:
                cov["lock_order_pairs_observed"] = m.group(1)
            if not cov["samples"]:
                with open(allf) as f:
                    for _ in range(2):
                        l = f.readline().strip()
                        if l:
                            cov["samples"].append(l[:700])
            for f in mine[:1]:
                ctx.add_violation(f"monitor of {f.get('prop')} false on an implementation trace at step {f.get('step')} ({f.get('detail')})",
                                  {"kind": "tower-history", "case": f["case"], "step": f.get("step"), "detail": f.get("detail")},
                                  {"kind": "tower-monitor", "code": f.get("prop"), "detail": f.get("detail", "")})
                found = True
            for f in known[:1]:
                ctx.add_violation(f"monitor class {f.get('prop')} at step {f.get('step')}",
                                  {"kind": "tower-history", "case": f["case"], "step": f.get("step")}, known_codes[f.get("prop")])
            if corr:
                ctx.broken.append({"kind": "correspondence",
                                   "what": "the tower model and the implementation disagree on an observation this property's theorems rest on",
                                   "field": corr[0].get("field"), "step": corr[0].get("step"),
                                   "model": corr[0].get("model", "")[:400], "impl": corr[0].get("impl", "")[:400],
                                   "case": corr[0].get("case", "")[:3000], "count": len(corr)})
            # widen the search when a tie is broken and no failing input has been found yet
            if (ctx.broken and not found) and not thorough and tag == "q":
                plan.append(("thorough", 60000, "mixed", "w"))
                ctx.log("a proof/translator/correspondence obligation is broken: widening the search for a failing input")
        cov["rule"] = ("histories of 12-180 steps over {register, add_appointment (valid / wrong key / garbage blobs, lengths around every slot "
                       "boundary 0..3 slots, 7 signature classes, resubmissions and updates), get_appointment, get_subscription_info, "
                       "block connection (0-3 disputes, optional penalties, re-mined orphans, noise), disconnection bursts of depth 1-3} with "
                       "configurations slots x duration x grace from {0,1,2,3,5,8,21,100}x{0,1,2,3,5,8,15,30,200}x{0,1,2,3,6}, 2-5 shared locators, "
                       "up to 4 users, scripted node answers per transaction {in mempool, confirmed, not found, other} x {ok,-27,-26,-25,-22,-1}; "
                       "every 10th history walks >100 further blocks. One observation per step: reply, RPC multiset, tables users/appointments/"
                       "trackers, gatekeeper memory. distinct = distinct operation sequences; non-trivial = contains a breach of a stored "
                       "appointment or a disconnection. " + rule_extra)
    if extra_run is not None:
        extra_run(ctx)
    return ctx.finish("proof")


def tower_probe(ctx, pid, mon_codes, fields, cases=3200, why=""):
    """Used by checks whose own harness drives a component in isolation (C19: TxIndex) although the property is about that
    component as the tower uses it: runs the sequential tower histories (quick generator) and reports, for property `pid`,
    a monitor failure of `mon_codes` as a concrete violation (the replay is the tower history) and a disagreement between
    the tower model and the implementation on one of `fields` as a broken correspondence."""
    if not ctx.cargo_build(["tower"]):
        return
    r, fails = run_harness(ctx, cases, "quick", "mixed", "p" + pid[1:])
    if r is None:
        return
    summ, _ = r
    ctx.coverage["tower_histories_probed"] = summ["cases"]
    ctx.coverage["tower_histories_probed_with_reorg"] = summ["reorg_cases"]
    pf = [parse_fail(f) for f in fails]
    mine = [f for f in pf if f.get("kind") == "mon" and f.get("prop") in mon_codes]
    corr = [f for f in pf if f.get("kind") in ("corr", "parse") and (f.get("field") in fields or f.get("kind") == "parse")]
    for f in mine[:1]:
        ctx.add_violation(f"{pid}: {why}: monitor of {f.get('prop')} false on a tower history at step {f.get('step')} ({f.get('detail')})",
                          {"kind": "tower-history", "case": f["case"], "step": f.get("step"), "detail": f.get("detail"),
                           "replay_with": "./vcheck C04 --replay"},
                          {"kind": "tower-monitor", "code": f.get("prop"), "detail": f.get("detail", "")})
    if corr:
        ctx.broken.append({"kind": "correspondence", "what": "the tower model and the implementation disagree on an observation (" + why + ")",
                           "field": corr[0].get("field"), "step": corr[0].get("step"), "model": corr[0].get("model", "")[:400],
                           "impl": corr[0].get("impl", "")[:400], "case": corr[0].get("case", "")[:3000], "count": len(corr)})


def replay(ctx, path):
    obj = json.load(open(path))["replay"]
    if obj.get("kind") != "tower-history":
        print(json.dumps(obj, indent=1))
        return 1
    if not (ctx.cargo_build(["tower"]) and ctx.ocaml_build()):
        return 2
    cf = os.path.join(ctx.work, "replay_case.txt")
    open(cf, "w").write(obj["case"] + "\n")
    out_f = os.path.join(ctx.work, "replay_out.txt")
    vlib.sh([ctx.bin("tower"), "replay", cf, out_f], env={"VERIF_LISTENER_ORDER": listener_order_env()})
    rc, out, _ = vlib.sh([vlib.DRIVER, out_f])
    print(out)
    return 1 if "FAIL mon" in out or "FAIL corr" in out else 0
