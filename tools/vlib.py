"""vlib.py — common machinery of ./vcheck: translator, Coq build + hygiene, cargo/OCaml builds,
verdict and evidence writing.  See DESIGN.md section 2.2."""
import fcntl
import hashlib
import json
import os
import re
import subprocess
import sys
import time

VERIF = os.path.dirname(os.path.dirname(os.path.abspath(__file__)))
REPO = os.environ.get("VERIF_REPO", "/repo")
BUILD = os.path.join(VERIF, ".build")
COQ = os.path.join(VERIF, "coq")
HARNESS = os.path.join(VERIF, "harness")
TARGET = os.path.join(BUILD, "target")
OCAML = os.path.join(BUILD, "ocaml")
DRIVER = os.path.join(OCAML, "driver")

FORBIDDEN = re.compile(
    r"\b(Admitted|admit|Axiom|Axioms|Parameter|Parameters|Conjecture|Conjectures|Hypothesis|Variable|Variables)\b"
    r"|Unset\s+Guard|bypass_check|type-in-type|impredicative-set|Admit\s+Obligations"
)
OBLIGATION = re.compile(r"^\s*(?:Local\s+|Global\s+)?(Theorem|Lemma|Corollary|Example|Fact|Proposition|Remark)\s+([A-Za-z0-9_']+)", re.M)

STDLIB_AXIOMS_ALLOWED = {
    "ClassicalDedekindReals.sig_forall_dec",
    "ClassicalDedekindReals.sig_not_dec",
    "FunctionalExtensionality.functional_extensionality_dep",
    "Classical_Prop.classic",
}


def sh(cmd, cwd=None, timeout=3600, env=None, capture=True):
    e = dict(os.environ)
    e.setdefault("CARGO_NET_OFFLINE", "true")
    if env:
        e.update(env)
    t0 = time.time()
    try:
        p = subprocess.run(cmd, cwd=cwd, shell=isinstance(cmd, str), timeout=timeout, env=e,
                           stdout=subprocess.PIPE if capture else None,
                           stderr=subprocess.STDOUT if capture else None, text=True, errors="replace")
        return p.returncode, (p.stdout or ""), time.time() - t0
    except subprocess.TimeoutExpired as ex:
        out = ex.stdout if isinstance(ex.stdout, str) else (ex.stdout or b"").decode(errors="replace")
        return 124, out + "\n[timeout]", time.time() - t0


class BuildLock:
    def __enter__(self):
        os.makedirs(BUILD, exist_ok=True)
        self.f = open(os.path.join(BUILD, "lock"), "w")
        fcntl.flock(self.f, fcntl.LOCK_EX)
        return self

    def __exit__(self, *a):
        fcntl.flock(self.f, fcntl.LOCK_UN)
        self.f.close()


def repo_override(log=None):
    """When VERIF_REPO names another checkout of rust-teos (a scratch git worktree used to try a patch or a
    seeded change), the translator already reads it (REPO); this makes the Rust harness (and through it every
    crate of the repository, the plugin binary included) build against it too, without touching the committed
    harness/Cargo.toml: a copy of harness/ with the path dependencies rewritten lives under .build/harness-alt
    and builds into .build/target-alt.  Idempotent."""
    global HARNESS, TARGET
    import shutil  # noqa: F401
    repo = os.path.realpath(REPO)
    if repo == "/repo" or HARNESS.endswith("harness-alt"):
        return False
    src = HARNESS
    alt = os.path.join(BUILD, "harness-alt")
    os.makedirs(alt, exist_ok=True)
    sh(["rsync", "-a", "--delete", "--exclude", ".cargo", "--exclude", "Cargo.toml", os.path.join(src, ""), alt + "/"])
    man = open(os.path.join(src, "Cargo.toml")).read()
    man2 = re.sub(r'path = "/repo/', f'path = "{repo}/', man)
    p = os.path.join(alt, "Cargo.toml")
    if not os.path.exists(p) or open(p).read() != man2:
        open(p, "w").write(man2)
    os.makedirs(os.path.join(alt, ".cargo"), exist_ok=True)
    cfg = '[net]\noffline = true\n[build]\ntarget-dir = "../target-alt"\n'
    p = os.path.join(alt, ".cargo", "config.toml")
    if not os.path.exists(p) or open(p).read() != cfg:
        open(p, "w").write(cfg)
    HARNESS = alt
    TARGET = os.path.join(BUILD, "target-alt")
    if log:
        log(f"VERIF_REPO={repo}: harness built from {alt} into {TARGET}")
    return True


class Ctx:
    def __init__(self, pid, tier, seed):
        self.pid = pid
        self.tier = tier
        self.seed = seed
        self.t0 = time.time()
        self.work = os.path.join(BUILD, "work", pid)
        os.makedirs(self.work, exist_ok=True)
        os.makedirs(os.path.join(VERIF, "replay"), exist_ok=True)
        os.makedirs(os.path.join(VERIF, "evidence"), exist_ok=True)
        self.broken = []          # proof / translator / correspondence obligations that no longer check
        self.violations = []      # concrete failing inputs found on the implementation: dicts
        self.known_hits = []      # violations matched by known_findings.json
        self.coverage = {"evaluations": 0, "distinct_nontrivial": 0, "rule": "", "samples": [],
                         "traces_validated_against_impl": 0, "obligations": 0, "discharged": 0,
                         "checker_cmd": "", "trusted_base": []}
        self.assumptions = []
        self.notes = []
        self.known = load_known(pid)
        if repo_override(self.log):
            self.notes.append(f"checked against VERIF_REPO={os.path.realpath(REPO)} (not /repo)")

    def log(self, msg):
        print(f"[{self.pid} {time.time() - self.t0:6.1f}s] {msg}", flush=True)

    # ---------------- translator ----------------
    def translate(self):
        """Regenerates Gen/*.v.  A generator that cannot parse its source fragment is a broken tie ONLY for the
        properties whose Coq cone contains that generated file: the errors are kept in self.translate_errors and
        attributed in coq_hygiene (when the cone is known) or, failing that, in finish()."""
        rc, out, _ = sh([sys.executable, os.path.join(VERIF, "tools", "translate.py")])
        self.translate_errors = []
        for l in out.splitlines():
            if l.startswith("TRANSLATE-ERROR"):
                msg = l[len("TRANSLATE-ERROR "):]
                gen = msg.split(":", 1)[0].strip()
                self.translate_errors.append((gen, msg))
                self.log(l)
            elif l.strip():
                self.log(l)
        return rc == 0

    def attribute_translate_errors(self, cone):
        for gen, msg in getattr(self, "translate_errors", []):
            if cone is None or ("theories/Gen/" + gen) in cone:
                self.broken.append({"kind": "translator", "what": msg})
            else:
                self.notes.append(f"translator: {msg} (generated file not in this property's cone: not a broken tie here)")
        self.translate_errors = []

    # ---------------- Coq ----------------
    def coq_build(self, targets, timeout=1500):
        """Build the .vo targets (paths relative to coq/), return dict with results."""
        with BuildLock():
            mk = os.path.join(COQ, "Makefile")
            proj = os.path.join(COQ, "_CoqProject")
            gen_coqproject()
            if not os.path.exists(mk) or os.path.getmtime(mk) < os.path.getmtime(proj):
                rc, out, _ = sh("coq_makefile -f _CoqProject -o Makefile", cwd=COQ)
                if rc != 0:
                    self.broken.append({"kind": "build", "what": "coq_makefile failed: " + out[-500:]})
                    return {"ok": False, "out": out}
            vos = [t[:-2] + ".vo" if t.endswith(".v") else t for t in targets]
            rc, out, dt = sh(["make", "-j16", "-k"] + vos, cwd=COQ, timeout=timeout)
        self.log(f"coq: make {' '.join(vos)} -> rc={rc} in {dt:.1f}s")
        res = {"ok": rc == 0, "out": out, "targets": vos}
        if rc != 0:
            errs = re.findall(r'File "\./([^"]+)", line (\d+), characters [^:]+:\n(Error:.*?)(?=\n\n|\nmake|\Z)', out, re.S)
            if not errs:
                self.broken.append({"kind": "proof", "what": "coq build failed", "detail": out[-1500:]})
            for f, line, msg in errs:
                thm = enclosing_statement(os.path.join(COQ, f), int(line))
                self.broken.append({"kind": "proof", "file": f, "line": int(line), "theorem": thm,
                                    "detail": " ".join(msg.split())[:600]})
                self.log(f"coq: {f}:{line} ({thm}) no longer checks: {' '.join(msg.split())[:200]}")
        return res

    def coq_cone(self, targets):
        """Transitive .v dependencies (inside coq/theories) of the given targets."""
        dep = os.path.join(COQ, ".Makefile.d")
        graph = {}
        if os.path.exists(dep):
            for l in open(dep):
                if ":" not in l:
                    continue
                lhs, rhs = l.split(":", 1)
                outs = [x for x in lhs.split() if x.endswith(".vo")]
                ins = [x for x in rhs.split() if x.endswith(".vo") and x.startswith("theories/")]
                for o in outs:
                    graph[o] = ins
        seen = []
        todo = [t[:-2] + ".vo" if t.endswith(".v") else t for t in targets]
        while todo:
            x = todo.pop()
            if x in seen:
                continue
            seen.append(x)
            todo.extend(graph.get(x, []))
        return sorted(s[:-1] for s in seen)  # .vo -> .v

    def coq_hygiene(self, targets, build_res, allow_axioms=()):
        """Forbidden-token grep, obligation count, Print Assumptions allowlist for the cone."""
        cone = self.coq_cone(targets)
        self.attribute_translate_errors(cone)
        obligations, discharged = 0, 0
        names = []
        for v in cone:
            p = os.path.join(COQ, v)
            try:
                src = open(p).read()
            except OSError:
                continue
            body = strip_coq_comments(src)
            for m in FORBIDDEN.finditer(body):
                tok = m.group(0)
                # `Variable`/`Hypothesis`/`Context` are fine inside sections; we only use Context.
                self.broken.append({"kind": "hygiene", "file": v, "what": f"forbidden token {tok!r}"})
                self.log(f"hygiene: forbidden token {tok!r} in {v}")
            obs = OBLIGATION.findall(body)
            obligations += len(obs)
            if os.path.exists(p + "o") and os.path.getmtime(p + "o") >= os.path.getmtime(p):
                discharged += len(obs)
            if "/Properties/" in v:
                names += [n for _k, n in obs]
        # Print Assumptions of every property theorem, re-run on each check (the make log only has
        # them when the file was rebuilt)
        axioms_seen = set()
        assum = []
        prop_files = [v for v in cone if "/Properties/" in v]
        if names and build_res.get("ok"):
            af = os.path.join(self.work, "assumptions.v")
            with open(af, "w") as f:
                for v in prop_files:
                    f.write("Require Import TeosModel.%s.\n" % v[len("theories/"):-2].replace("/", "."))
                for n in names:
                    f.write('Print Assumptions %s.\n' % n)
            rc, out, _ = sh(["coqc", "-Q", os.path.join(COQ, "theories"), "TeosModel", af], cwd=self.work, timeout=600)
            # drop the echo of the property files' own Print Assumptions (none: they are compiled already)
            blocks = re.split(r"(?=^Closed under the global context|^Axioms:)", out, flags=re.M)
            blocks = [b for b in blocks if b.startswith("Closed") or b.startswith("Axioms:")]
            if rc != 0 or len(blocks) != len(names):
                self.broken.append({"kind": "hygiene", "what": "Print Assumptions run failed", "detail": out[-600:]})
            for n, b in zip(names, blocks):
                if b.startswith("Closed"):
                    assum.append(f"{n}: closed under the global context")
                else:
                    axs = re.findall(r"^([A-Za-z0-9_.']+)\s*:", b[len("Axioms:"):], re.M)
                    axioms_seen.update(axs)
                    assum.append(f"{n}: axioms {', '.join(axs)}")
        self.coverage["print_assumptions"] = assum
        bad = [a for a in axioms_seen if a not in allow_axioms]
        for a in bad:
            self.broken.append({"kind": "hygiene", "what": f"theorem depends on axiom {a} outside the allowlist"})
        self.coverage["obligations"] = obligations
        self.coverage["discharged"] = discharged
        self.coverage["property_theorems"] = names
        self.coverage["cone"] = cone
        self.coverage["axioms_reported"] = sorted(axioms_seen)
        # statement pins
        self.check_pins(cone)
        return cone

    def check_pins(self, cone):
        pins_path = os.path.join(VERIF, "tools", "pins.json")
        try:
            pins = json.load(open(pins_path))
        except OSError:
            pins = {}
        for v in cone:
            if "/Properties/" not in v:
                continue
            src = strip_coq_comments(open(os.path.join(COQ, v)).read())
            for m in re.finditer(r"\b(Theorem)\s+([A-Za-z0-9_']+)(.*?)\bProof\.", src, re.S):
                name, stmt = m.group(2), " ".join(m.group(3).split())
                h = hashlib.sha256(stmt.encode()).hexdigest()[:16]
                if name in pins and pins[name] != h:
                    self.broken.append({"kind": "pin", "theorem": name,
                                        "what": "statement differs from the pinned one (tools/pins.json)"})
                    self.log(f"pin: statement of {name} changed")

    # ---------------- cargo / ocaml ----------------
    def cargo_build(self, bins, release=False, features=None, timeout=3000):
        cmd = ["cargo", "build", "--offline"] + (["--release"] if release else [])
        for b in bins:
            cmd += ["--bin", b]
        with BuildLock():
            rc, out, dt = sh(cmd, cwd=HARNESS, timeout=timeout)
        self.log(f"cargo build {' '.join(bins)}{' --release' if release else ''} -> rc={rc} in {dt:.1f}s")
        if rc != 0:
            tail = "\n".join(l for l in out.splitlines() if l.startswith("error") or "-->" in l)[:1500]
            self.broken.append({"kind": "build", "what": "the harness no longer builds against /repo (API changed?)",
                                "detail": tail or out[-1500:]})
        return rc == 0

    def bin(self, name, release=False):
        return os.path.join(TARGET, "release" if release else "debug", name)

    def ocaml_build(self):
        """Extracts the models and links the driver.  Every model module named in extraction/parts is rebuilt
        first (a regenerated Gen file invalidates cones other than this property's).  A part whose modules do not
        build on this tree (its source fragment changed shape, a proof of another slice broke) is LEFT OUT together
        with the drv_*.ml files that need it, so that one slice cannot take the other properties' checks down; the
        check that needs the missing handler then reports a broken correspondence on its own."""
        pdir = os.path.join(COQ, "extraction", "parts")
        parts = {}
        for fn in sorted(os.listdir(pdir)):
            mods = []
            for l in open(os.path.join(pdir, fn)):
                if l.startswith("Require:"):
                    mods += l[len("Require:"):].split()
            parts[fn] = ["theories/" + m.replace(".", "/") + ".vo" for m in mods]
        vos = sorted({v for vs in parts.values() for v in vs})
        with BuildLock():
            gen_coqproject()
            mk = os.path.join(COQ, "Makefile")
            proj = os.path.join(COQ, "_CoqProject")
            if not os.path.exists(mk) or os.path.getmtime(mk) < os.path.getmtime(proj):
                sh("coq_makefile -f _CoqProject -o Makefile", cwd=COQ)
            rc0, out0, _ = sh(["make", "-j16", "-k"] + vos, cwd=COQ, timeout=1500)
            usable = []
            for fn, vs in parts.items():
                ok = True
                if rc0 != 0:
                    rcq, _o, _ = sh(["make", "-q"] + vs, cwd=COQ, timeout=300)
                    ok = rcq == 0
                if ok:
                    usable.append(fn)
                else:
                    self.log(f"extraction: part {fn} left out (its modules do not build on this tree)")
                    self.notes.append(f"extraction part {fn} left out: its modules do not build on this tree")
            rc, out, dt = sh([os.path.join(COQ, "extraction", "build.sh"), OCAML], timeout=900,
                             env={"PARTS": " ".join(usable)})
        self.log(f"extraction + ocaml driver -> rc={rc} in {dt:.1f}s")
        for l in out.splitlines():
            if l.startswith("SKIPPED-DRIVER"):
                self.log(l)
                self.notes.append(l)
        if rc != 0:
            self.broken.append({"kind": "build", "what": "extraction / driver build failed", "detail": out[-1500:]})
        return rc == 0

    # ---------------- verdict ----------------
    def add_violation(self, what, replay_obj, key):
        """A concrete failing input on the implementation. `key` identifies it for known_findings."""
        self.violations.append({"what": what, "replay": replay_obj, "key": key})

    def finish(self, level="proof"):
        self.attribute_translate_errors(None)
        rc = 0
        lines = []
        unknown = []
        for v in self.violations:
            k = match_known(self.known, v)
            if k is not None:
                if k not in [x[0] for x in self.known_hits]:
                    self.known_hits.append((k, v))
            else:
                unknown.append(v)
        for k, v in self.known_hits:
            lines.append(f"KNOWN-FINDING: property={self.pid} {k['what']}")
        if unknown:
            v = unknown[0]
            path = self.write_replay(v["replay"], v["what"], tag=hashlib.sha256(json.dumps(v["key"], sort_keys=True).encode()).hexdigest()[:10])
            lines.append(f"VIOLATION property={self.pid} replay={path}")
            rc = 1
        elif self.broken:
            obj = {"property": self.pid, "no_failing_input_found": True,
                   "no_longer_checks": self.broken,
                   "note": "a proof obligation, the translator, a pin or the model/implementation correspondence no longer "
                           "checks on this tree and the search found no input on which the implementation falsifies the monitor"}
            path = self.write_replay(obj, "broken obligation", tag="broken")
            lines.append(f"VIOLATION property={self.pid} replay={path} no-failing-input-found")
            rc = 1
        self.write_evidence(level, len(unknown) + (1 if (self.broken and not unknown) else 0))
        for l in lines:
            print(l, flush=True)
        self.log(f"done rc={rc}")
        return rc

    def write_replay(self, obj, what, tag):
        path = os.path.join(VERIF, "replay", f"{self.pid}-{tag}.json")
        with open(path, "w") as f:
            json.dump({"property": self.pid, "what": what, "seed": self.seed, "tier": self.tier, "replay": obj,
                       "rerun": f"cd /verif && ./vcheck {self.pid} --replay {path}"}, f, indent=1)
        return path

    def write_evidence(self, level, nviol):
        cov = dict(self.coverage)
        cov["samples"] = cov.get("samples", [])[:8]
        ev = {"property_id": self.pid, "tier": self.tier, "seed": self.seed, "level": level, "coverage": cov,
              "assumptions": self.assumptions, "wall_s": round(time.time() - self.t0, 2), "violations": nviol,
              "known_findings_reported": [k["what"] for k, _ in self.known_hits],
              "broken_obligations": self.broken, "notes": self.notes}
        with open(os.path.join(VERIF, "evidence", f"{self.pid}.json"), "w") as f:
            json.dump(ev, f, indent=1)


def gen_coqproject():
    """_CoqProject lists every .v under coq/theories (write-if-changed)."""
    vs = []
    for root, _d, files in os.walk(os.path.join(COQ, "theories")):
        for f in files:
            if f.endswith(".v") and not f.startswith("."):
                vs.append(os.path.relpath(os.path.join(root, f), COQ))
    content = ("-Q theories TeosModel\n"
               "-arg -w -arg -notation-overridden,-deprecated-hint-without-locality,-deprecated-instance-without-locality\n"
               + "\n".join(sorted(vs)) + "\n")
    p = os.path.join(COQ, "_CoqProject")
    try:
        if open(p).read() == content:
            return
    except OSError:
        pass
    open(p, "w").write(content)


def strip_coq_comments(src):
    out = []
    depth = 0
    i = 0
    while i < len(src):
        if src.startswith("(*", i):
            depth += 1
            i += 2
        elif src.startswith("*)", i) and depth > 0:
            depth -= 1
            i += 2
        else:
            if depth == 0:
                out.append(src[i])
            elif src[i] == "\n":
                out.append("\n")
            i += 1
    return "".join(out)


def enclosing_statement(path, line):
    try:
        lines = open(path).read().splitlines()
    except OSError:
        return "?"
    for i in range(min(line, len(lines)) - 1, -1, -1):
        m = OBLIGATION.match(lines[i])
        if m:
            return m.group(2)
    return "?"


def load_known(pid):
    try:
        data = json.load(open(os.path.join(VERIF, "known_findings.json")))
    except OSError:
        return []
    return [k for k in data.get("findings", []) if k.get("property") == pid and k.get("status") == "known"]


def match_known(known, violation):
    """A violation matches a known finding when every key/value of the finding's `match` object
    equals the corresponding entry of the violation's key."""
    key = violation["key"]
    for k in known:
        m = k.get("match", {})
        if m and all(key.get(a) == b for a, b in m.items()):
            return k
    return None


def parse_summary(out):
    res = {}
    for l in out.splitlines():
        if l.startswith("SUMMARY"):
            d = {}
            for tok in l.split()[1:]:
                if "=" in tok:
                    a, b = tok.split("=", 1)
                    d[a] = int(b) if re.fullmatch(r"-?\d+", b) else b
            res[d.get("kind", "?")] = d
    return res
