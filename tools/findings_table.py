#!/usr/bin/env python3
"""findings_table.py — regenerate the two lists of DESIGN.md section 11.3 (between the FINDINGS markers) from
known_findings.json: defects repaired by a fix: commit (grouped by commit) and defects recorded as KNOWN-FINDING."""
import json
import os
import subprocess

HERE = os.path.dirname(os.path.dirname(os.path.abspath(__file__)))
k = json.load(open(os.path.join(HERE, "known_findings.json")))
fixed, known = {}, []
for f in k["findings"]:
    if f.get("status") == "fixed":
        e = fixed.setdefault(f.get("commit", "?"), {"props": [], "what": f.get("what", "")})
        if f["property"] not in e["props"]:
            e["props"].append(f["property"])
        if len(f.get("what", "")) < len(e["what"]) and len(f.get("what", "")) > 20:
            e["what"] = f["what"]
    else:
        known.append(f)
try:
    order = subprocess.check_output(["git", "-C", "/repo", "log", "--reverse", "--format=%h %s"], text=True).splitlines()
except Exception:
    order = []
subj = {l.split()[0]: " ".join(l.split()[1:]) for l in order}
rows = ["| commit | properties | what failed |", "|--------|------------|-------------|"]
seen = set()
for l in order:
    h = l.split()[0]
    if h in fixed:
        seen.add(h)
        rows.append(f"| {h} | {', '.join(sorted(fixed[h]['props']))} | {fixed[h]['what'][:300].replace('|', '/')} |")
for h, e in fixed.items():
    if h not in seen:
        rows.append(f"| {h} | {', '.join(sorted(e['props']))} | {e['what'][:300].replace('|', '/')} |")
out = ["Repaired by a minimal unguarded `fix:` commit in `/repo` (the unedited 275-test suite passes with each):", ""] + rows + [
    "", "Recorded as KNOWN-FINDING (the repair is a design change or was not attempted; each entry is matched by a specific class, "
    "so any other violation of the same property is still reported):", ""]
for f in known:
    out.append(f"* **{f['property']}** `{json.dumps(f.get('match', {}), sort_keys=True)}` — {f['what'][:420].replace(chr(10), ' ')}")
p = os.path.join(HERE, "DESIGN.md")
s = open(p).read()
a = s.index("<!-- FINDINGS-BEGIN -->") + len("<!-- FINDINGS-BEGIN -->")
b = s.index("<!-- FINDINGS-END -->")
open(p, "w").write(s[:a] + "\n" + "\n".join(out) + "\n" + s[b:])
print(len(fixed), "fix commits,", len(known), "known findings")
