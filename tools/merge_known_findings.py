#!/usr/bin/env python3
"""Resolve a merge conflict in known_findings.json by taking the union of both sides' entries
(theirs first, then ours that are not in theirs; an entry of ours replaces the base version it edited)."""
import json
import subprocess
import sys

root = subprocess.check_output(["git", "rev-parse", "--show-toplevel"], text=True).strip()


def side(n):
    return json.loads(subprocess.check_output(["git", "show", f":{n}:known_findings.json"], cwd=root))


base, ours, theirs = side(1), side(2), side(3)
key = lambda e: json.dumps(e, sort_keys=True)
ident = lambda e: json.dumps([e.get("property"), e.get("match"), e.get("what") if not e.get("match") else None], sort_keys=True)
basek = {key(e) for e in base["findings"]}
ours_changed = {ident(e) for e in ours["findings"] if key(e) not in basek}
merged = [e for e in theirs["findings"] if not (key(e) in basek and ident(e) in ours_changed)]
have = {key(e) for e in merged}
for e in ours["findings"]:
    if key(e) not in have and not (key(e) in basek and key(e) not in {key(x) for x in theirs["findings"]}):
        merged.append(e)
theirs["findings"] = merged
json.dump(theirs, open(f"{root}/known_findings.json", "w"), indent=1)
print(len(merged), "entries")
