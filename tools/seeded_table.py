#!/usr/bin/env python3
"""seeded_table.py — regenerate the table of seeded changes in DESIGN.md (between the SEEDED-TABLE markers)
from seeded/*/meta.json."""
import json
import os

HERE = os.path.dirname(os.path.dirname(os.path.abspath(__file__)))
rows = []
sd = os.path.join(HERE, "seeded")
for d in sorted(os.listdir(sd)):
    mp = os.path.join(sd, d, "meta.json")
    if not os.path.exists(mp):
        continue
    m = json.load(open(mp))
    det = m.get("detected_by") or []
    det_s = "; ".join(f"{x['check']}: {x['how']}" for x in det) if det else "**not detected** " + m.get("why_missed", "")
    if m.get("obsolete"):
        det_s = "*obsolete*: " + m["obsolete"]
    rows.append(f"| `{d}` | {m.get('property','?')} | {m.get('summary','').replace('|','/')} | {m.get('needs','').replace('|','/')[:220]} | {det_s} |")
table = ["| id | property | change | needs, to manifest | reported by |", "|----|----------|--------|--------------------|-------------|"] + rows
p = os.path.join(HERE, "DESIGN.md")
s = open(p).read()
a = s.index("<!-- SEEDED-TABLE-BEGIN -->") + len("<!-- SEEDED-TABLE-BEGIN -->")
b = s.index("<!-- SEEDED-TABLE-END -->")
s = s[:a] + "\n" + "\n".join(table) + "\n" + s[b:]
open(p, "w").write(s)
print(len(rows), "rows")
