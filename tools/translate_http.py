"""translate_http.py — generates coq/theories/Gen/Http.v: the decision tables of the public HTTP API as DATA.

Sources (all under VERIF_REPO, each with one strict expected shape; anything else is a TranslateError):
  teos-common/src/errors.rs       every error code
  teos-common/src/net/http.rs     Endpoint -> path segment
  teos-common/src/appointment.rs  Locator is [u8; LOCATOR_LEN], Locator::from_slice = try_into
  teos/src/api/http.rs            the four *_BODY_LEN caps; `router` (every route: method filter, path, body filters, handler, and
                                  the order of the `.or` chain ending in `.recover(handle_rejection)`); the ApiError constructors
                                  and their error codes; every statement of the four handlers before they forward (field checks,
                                  in order); `match_status` (tonic code -> status, error code; the catch-all); `handle_rejection`
                                  (rejection kind / substring rows in source order, their statuses, what falls through to warp)
  teos/src/api/internal.rs        for each method of `impl PublicTowerServices for Arc<InternalAPI>`: the tonic codes it can return
                                  (its own `Status::new(Code::X, ..)` plus check_service_unavailable's), which failure maps to
                                  which code, and every `.unwrap()` in it (those on request fields become requirements)
"""
import re
import translate
from translate import TranslateError, code, int_consts, zlit

HTTP_RS = "teos/src/api/http.rs"
INTERNAL_RS = "teos/src/api/internal.rs"

TONIC_CODES = {"Ok": 0, "Cancelled": 1, "Unknown": 2, "InvalidArgument": 3, "DeadlineExceeded": 4, "NotFound": 5,
               "AlreadyExists": 6, "PermissionDenied": 7, "ResourceExhausted": 8, "FailedPrecondition": 9, "Aborted": 10,
               "OutOfRange": 11, "Unimplemented": 12, "Internal": 13, "Unavailable": 14, "DataLoss": 15, "Unauthenticated": 16}
# http::StatusCode associated constants
STATUS_CODES = {
    "CONTINUE": 100, "SWITCHING_PROTOCOLS": 101, "PROCESSING": 102, "OK": 200, "CREATED": 201, "ACCEPTED": 202,
    "NON_AUTHORITATIVE_INFORMATION": 203, "NO_CONTENT": 204, "RESET_CONTENT": 205, "PARTIAL_CONTENT": 206, "MULTI_STATUS": 207,
    "ALREADY_REPORTED": 208, "IM_USED": 226, "MULTIPLE_CHOICES": 300, "MOVED_PERMANENTLY": 301, "FOUND": 302, "SEE_OTHER": 303,
    "NOT_MODIFIED": 304, "USE_PROXY": 305, "TEMPORARY_REDIRECT": 307, "PERMANENT_REDIRECT": 308, "BAD_REQUEST": 400,
    "UNAUTHORIZED": 401, "PAYMENT_REQUIRED": 402, "FORBIDDEN": 403, "NOT_FOUND": 404, "METHOD_NOT_ALLOWED": 405, "NOT_ACCEPTABLE": 406,
    "PROXY_AUTHENTICATION_REQUIRED": 407, "REQUEST_TIMEOUT": 408, "CONFLICT": 409, "GONE": 410, "LENGTH_REQUIRED": 411,
    "PRECONDITION_FAILED": 412, "PAYLOAD_TOO_LARGE": 413, "URI_TOO_LONG": 414, "UNSUPPORTED_MEDIA_TYPE": 415, "RANGE_NOT_SATISFIABLE": 416,
    "EXPECTATION_FAILED": 417, "IM_A_TEAPOT": 418, "MISDIRECTED_REQUEST": 421, "UNPROCESSABLE_ENTITY": 422, "LOCKED": 423,
    "FAILED_DEPENDENCY": 424, "UPGRADE_REQUIRED": 426, "PRECONDITION_REQUIRED": 428, "TOO_MANY_REQUESTS": 429,
    "REQUEST_HEADER_FIELDS_TOO_LARGE": 431, "UNAVAILABLE_FOR_LEGAL_REASONS": 451, "INTERNAL_SERVER_ERROR": 500, "NOT_IMPLEMENTED": 501,
    "BAD_GATEWAY": 502, "SERVICE_UNAVAILABLE": 503, "GATEWAY_TIMEOUT": 504, "HTTP_VERSION_NOT_SUPPORTED": 505,
    "VARIANT_ALSO_NEGOTIATES": 506, "INSUFFICIENT_STORAGE": 507, "LOOP_DETECTED": 508, "NOT_EXTENDED": 510,
    "NETWORK_AUTHENTICATION_REQUIRED": 511,
}
WARP_KINDS = {"MethodNotAllowed": "WMethodNotAllowed", "LengthRequired": "WLengthRequired", "PayloadTooLarge": "WPayloadTooLarge",
              "UnsupportedMediaType": "WUnsupportedMediaType"}
CAP_NAMES = ["REGISTER_BODY_LEN", "ADD_APPOINTMENT_BODY_LEN", "GET_APPOINTMENT_BODY_LEN", "GET_SUBSCRIPTION_INFO_BODY_LEN"]
# request field (as the handler / the internal API spells it, relative to the request message) -> constructor of HttpBase.hfield
FIELDS = {
    ("RegisterRequest", "user_id"): "FUserId",
    ("AddAppointmentRequest", "appointment"): "FAppointment",
    ("AddAppointmentRequest", "appointment.locator"): "FAppLocator",
    ("AddAppointmentRequest", "appointment.encrypted_blob"): "FAppBlob",
    ("AddAppointmentRequest", "appointment.to_self_delay"): "FAppDelay",
    ("AddAppointmentRequest", "signature"): "FSignature",
    ("GetAppointmentRequest", "locator"): "FLocator",
    ("GetAppointmentRequest", "signature"): "FSignature",
    ("GetSubscriptionInfoRequest", "signature"): "FSignature",
}


# ------------------------------------------------------------------------------------------------
# text helpers
# ------------------------------------------------------------------------------------------------
def squeeze(src):
    """remove all whitespace outside string literals (string literals are kept verbatim)"""
    out, i, n = [], 0, len(src)
    while i < n:
        c = src[i]
        if c == '"':
            j = i + 1
            while j < n and src[j] != '"':
                j += 2 if src[j] == "\\" else 1
            out.append(src[i : j + 1])
            i = j + 1
        elif c.isspace():
            i += 1
        else:
            out.append(c)
            i += 1
    return "".join(out)


def block_after(src, header_re, rel, what):
    """the text between the braces of the first block that follows header_re"""
    m = re.search(header_re, src)
    if not m:
        raise TranslateError(f"{rel}: {what} not found")
    i = src.index("{", m.end() - 1)
    return braces(src, i, rel, what)[0]


def braces(src, i, rel, what):
    """src[i] == '{': returns (inside, index after the closing brace); string literals are skipped"""
    if i >= len(src) or src[i] != "{":
        raise TranslateError(f"{rel}: {what}: expected '{{' at {src[i:i+40]!r}")
    depth, j, n = 1, i + 1, len(src)
    while j < n and depth:
        c = src[j]
        if c == '"':
            j += 1
            while j < n and src[j] != '"':
                j += 2 if src[j] == "\\" else 1
        elif c == "{":
            depth += 1
        elif c == "}":
            depth -= 1
        j += 1
    if depth:
        raise TranslateError(f"{rel}: {what}: unbalanced braces")
    return src[i + 1 : j - 1], j


def parens(src, i, rel, what):
    """src[i] == '(': returns (inside, index after the closing parenthesis)"""
    if i >= len(src) or src[i] != "(":
        raise TranslateError(f"{rel}: {what}: expected '(' at {src[i:i+40]!r}")
    depth, j, n = 1, i + 1, len(src)
    while j < n and depth:
        c = src[j]
        if c == '"':
            j += 1
            while j < n and src[j] != '"':
                j += 2 if src[j] == "\\" else 1
        elif c == "(":
            depth += 1
        elif c == ")":
            depth -= 1
        j += 1
    if depth:
        raise TranslateError(f"{rel}: {what}: unbalanced parentheses")
    return src[i + 1 : j - 1], j


def fn_body(src, header_re, rel, what):
    """body of the fn whose header matches header_re (the first '{' at bracket depth 0 after the parameter list)"""
    m = re.search(header_re, src)
    if not m:
        raise TranslateError(f"{rel}: {what} not found")
    i = src.index("(", m.end() - 1)
    _params, j = parens(src, i, rel, what)
    # skip the return type: angle brackets / parentheses may nest, no braces occur in the types used here
    k = src.index("{", j)
    if "}" in src[j:k] or ";" in src[j:k]:
        raise TranslateError(f"{rel}: {what}: unexpected text between the parameter list and the body")
    return braces(src, k, rel, what)[0], src[i + 1 : j - 1]


def rust_lit(s, rel):
    """contents of a Rust string literal without escapes other than \\" and \\\\ (s includes the quotes)"""
    if len(s) < 2 or s[0] != '"' or s[-1] != '"':
        raise TranslateError(f"{rel}: {s!r} is not a string literal")
    body = s[1:-1]
    out, i = [], 0
    while i < len(body):
        if body[i] == "\\":
            if i + 1 < len(body) and body[i + 1] in '"\\':
                out.append(body[i + 1])
                i += 2
                continue
            raise TranslateError(f"{rel}: escape in string literal {s!r} is not modelled")
        out.append(body[i])
        i += 1
    txt = "".join(out)
    if not all(32 <= ord(c) < 127 for c in txt):
        raise TranslateError(f"{rel}: string literal {s!r} is not printable ASCII")
    return txt


def coq_bytes(s):
    return "[" + "; ".join(f"{ord(c)}%N" for c in s) + "]"


def status_of(name, rel, what):
    if name not in STATUS_CODES:
        raise TranslateError(f"{rel}: {what}: unknown StatusCode::{name}")
    return STATUS_CODES[name]


# ------------------------------------------------------------------------------------------------
# errors.rs, endpoint names, ApiError constructors
# ------------------------------------------------------------------------------------------------
def error_codes():
    errs = int_consts("teos-common/src/errors.rs")
    if not errs:
        raise TranslateError("teos-common/src/errors.rs: no error code found")
    raw = code("teos-common/src/errors.rs")
    # every item of the file must be one of the constants found (nothing else may define codes)
    left = translate.CONST_RE.sub("", raw).strip()
    if left:
        raise TranslateError(f"teos-common/src/errors.rs: unexpected item {left[:60]!r}")
    for n, v in errs:
        if not 0 <= v <= 255:
            raise TranslateError(f"teos-common/src/errors.rs: {n} = {v} does not fit the u8 error_code field")
    return errs


def endpoint_names():
    rel = "teos-common/src/net/http.rs"
    src = code(rel)
    names = dict(re.findall(r'Endpoint::([A-Za-z]+)\s*=>\s*"([^"]*)"', src))
    enum = block_after(src, r"pub\s+enum\s+Endpoint\s*\{", rel, "enum Endpoint")
    variants = [v for v in re.split(r"[,\s]+", enum) if v]
    if sorted(variants) != sorted(names):
        raise TranslateError(f"{rel}: Display of Endpoint does not name exactly the variants {variants}")
    for v, n in names.items():
        if not re.fullmatch(r"[a-z_]+", n):
            raise TranslateError(f"{rel}: Endpoint::{v} name {n!r} is not a plain path segment")
    return names


def api_error_ctors(sq, errs):
    """ApiError::<ctor>(..) -> error code, from `impl ApiError`"""
    body = block_after(sq, r"implApiError\{", HTTP_RS, "impl ApiError")
    out = {}
    for m in re.finditer(r"fn([a-z_]+)\(([^)]*)\)->Rejection\{reject::custom\(Self::new\(format!\((.*?)\),errors::([A-Z_]+),?\)\)\}", body):
        name, _params, _fmt, err = m.groups()
        if err not in errs:
            raise TranslateError(f"{HTTP_RS}: ApiError::{name}: unknown error constant {err}")
        out[name] = err
    for need in ("missing_field", "empty_field", "wrong_field_length"):
        if need not in out:
            raise TranslateError(f"{HTTP_RS}: constructor ApiError::{need} not found in the expected shape")
    if "fnnew(error:String,error_code:u8)->Self{ApiError{error,error_code}}" not in body:
        raise TranslateError(f"{HTTP_RS}: ApiError::new has an unexpected shape")
    n_fns = len(re.findall(r"\bfn[a-z_]+\(", body))
    if n_fns != len(out) + 1:
        raise TranslateError(f"{HTTP_RS}: impl ApiError has functions I cannot parse")
    if "implreject::RejectforApiError{}" not in sq:
        raise TranslateError(f"{HTTP_RS}: ApiError is not a warp custom rejection (impl reject::Reject for ApiError {{}})")
    return out


# ------------------------------------------------------------------------------------------------
# router
# ------------------------------------------------------------------------------------------------
def split_chain(expr, rel, what):
    """`head.m1(a1).m2(a2)...` -> (head, [(m1, a1), ...]) with head = `x::y()` or an identifier"""
    m = re.match(r"[A-Za-z_:]+(\(\))?", expr)
    if not m:
        raise TranslateError(f"{rel}: {what}: cannot parse {expr[:60]!r}")
    head, i, calls = m.group(0), m.end(), []
    while i < len(expr):
        mm = re.match(r"\.([a-z_]+)", expr[i:])
        if not mm:
            raise TranslateError(f"{rel}: {what}: cannot parse {expr[i:i+60]!r}")
        i += mm.end()
        arg, i = parens(expr, i, rel, what)
        calls.append((mm.group(1), arg))
    return head, calls


def router(sq, caps, names):
    body, params = fn_body(sq, r"fnrouter\(", HTTP_RS, "fn router")
    if params.rstrip(",") != "grpc_conn:PublicTowerServicesClient<Channel>":
        raise TranslateError(f"{HTTP_RS}: router has unexpected parameters {params!r}")
    if "fnwith_grpc(grpc_endpoint:PublicTowerServicesClient<Channel>,)->implFilter<Extract=(PublicTowerServicesClient<Channel>,),Error=Infallible>+Clone{warp::any().map(move||grpc_endpoint.clone())}" not in sq:
        raise TranslateError(f"{HTTP_RS}: with_grpc has an unexpected shape")
    stmts = [s for s in body.split(";")]
    final = stmts[-1]
    routes = {}
    for s in stmts[:-1]:
        m = re.fullmatch(r"let([a-z_]+)=(.*)", s)
        if not m:
            raise TranslateError(f"{HTTP_RS}: router: statement {s[:60]!r} is not `let <route> = <filter>`")
        name, expr = m.groups()
        head, calls = split_chain(expr, HTTP_RS, f"router: route {name}")
        if head not in ("warp::post()", "warp::get()"):
            raise TranslateError(f"{HTTP_RS}: router: route {name} does not start with warp::post() / warp::get()")
        method = "MPost" if head == "warp::post()" else "MGet"
        if not calls or calls[-1][0] != "and_then":
            raise TranslateError(f"{HTTP_RS}: router: route {name} does not end with .and_then(handler)")
        handler = calls[-1][1]
        args = calls[:-1]
        if any(k != "and" for k, _a in args):
            raise TranslateError(f"{HTTP_RS}: router: route {name} uses a combinator other than .and / .and_then")
        args = [a.rstrip(",") for _k, a in args]
        if not args:
            raise TranslateError(f"{HTTP_RS}: router: route {name} has no path filter")
        pm = re.fullmatch(r"warp::path\(Endpoint::([A-Za-z]+)\.to_string\(\)\)", args[0])
        if not pm or pm.group(1) not in names:
            raise TranslateError(f"{HTTP_RS}: router: route {name}: first filter after the method is not warp::path(Endpoint::X.to_string())")
        seg = names[pm.group(1)]
        rest = args[1:]
        cap = None
        if rest and rest[0].startswith("warp::body::"):
            bm = re.fullmatch(r"warp::body::content_length_limit\(([A-Z_]+)\)\.and\(warp::body::json\(\)\)", rest[0])
            if not bm or bm.group(1) not in caps:
                raise TranslateError(f"{HTTP_RS}: router: route {name}: body filter is not content_length_limit(<CAP>).and(json())")
            cap = (bm.group(1), caps[bm.group(1)])
            rest = rest[1:]
        if not rest or rest[0] != "warp::addr::remote()":
            raise TranslateError(f"{HTTP_RS}: router: route {name}: expected warp::addr::remote() after the path/body filters")
        rest = rest[1:]
        grpc = False
        if rest:
            if rest[0] not in ("with_grpc(grpc_conn.clone())", "with_grpc(grpc_conn)"):
                raise TranslateError(f"{HTTP_RS}: router: route {name}: unexpected filter {rest[0][:60]!r}")
            grpc = True
            rest = rest[1:]
        if rest:
            raise TranslateError(f"{HTTP_RS}: router: route {name}: unexpected filter {rest[0][:60]!r}")
        if (cap is None) != (not grpc):
            raise TranslateError(f"{HTTP_RS}: router: route {name}: a body filter and the gRPC connection must come together")
        if name in routes:
            raise TranslateError(f"{HTTP_RS}: router: route {name} defined twice")
        routes[name] = {"var": name, "method": method, "segment": seg, "cap": cap, "handler": handler, "grpc": grpc}
    head, calls = split_chain(final, HTTP_RS, "router: result")
    if not calls or calls[-1] != ("recover", "handle_rejection"):
        raise TranslateError(f"{HTTP_RS}: router does not end with .recover(handle_rejection)")
    order = [head] + [a for k, a in calls[:-1]]
    if any(k != "or" for k, _a in calls[:-1]):
        raise TranslateError(f"{HTTP_RS}: router: the routes are not combined by .or(..) only")
    if sorted(order) != sorted(routes):
        raise TranslateError(f"{HTTP_RS}: router: the .or chain {order} does not use exactly the routes defined {sorted(routes)}")
    segs = [routes[o]["segment"] for o in order]
    if len(set(segs)) != len(segs):
        raise TranslateError(f"{HTTP_RS}: router: two routes share a path segment")
    return [routes[o] for o in order]


# ------------------------------------------------------------------------------------------------
# handlers
# ------------------------------------------------------------------------------------------------
class P:
    """cursor over squeezed text"""

    def __init__(self, s, what):
        self.s, self.i, self.what = s, 0, what

    def at(self, lit):
        return self.s.startswith(lit, self.i)

    def eat(self, lit):
        if not self.at(lit):
            raise TranslateError(f"{HTTP_RS}: {self.what}: expected {lit!r} at {self.s[self.i:self.i+70]!r}")
        self.i += len(lit)

    def rx(self, pat):
        m = re.compile(pat).match(self.s, self.i)
        if not m:
            raise TranslateError(f"{HTTP_RS}: {self.what}: cannot parse {self.s[self.i:self.i+70]!r}")
        self.i = m.end()
        return m

    def done(self):
        return self.i >= len(self.s)


def handler_checks(sq, route, ctors, errs, consts):
    h = route["handler"]
    body, params = fn_body(sq, r"asyncfn" + h + r"\(", HTTP_RS, f"handler {h}")
    pm = re.fullmatch(r"req:common_msgs::([A-Za-z]+),addr:Option<std::net::SocketAddr>,mutgrpc_conn:PublicTowerServicesClient<Channel>,?", params)
    if not pm:
        raise TranslateError(f"{HTTP_RS}: handler {h} has unexpected parameters {params[:80]!r}")
    req_type = pm.group(1)
    tail = f"let(body,status)=parse_grpc_response(grpc_conn.{h}(req).await);Ok(reply::with_status(body,status))"
    if not body.endswith(tail):
        raise TranslateError(f"{HTTP_RS}: handler {h} does not end by forwarding req to grpc_conn.{h} through parse_grpc_response")
    p = P(body[: -len(tail)], f"handler {h}")
    checks = []
    aliases = {}

    def field_of(expr, scope):
        """expr: `req.f`, `<alias>`, `<var>.f` with var bound by `if let Some(var) = &req.g`"""
        if expr in aliases:
            path = aliases[expr]
        else:
            m = re.fullmatch(r"([a-z_]+)\.([a-z_]+)", expr)
            if not m:
                raise TranslateError(f"{HTTP_RS}: handler {h}: cannot resolve the field expression {expr!r}")
            base, f = m.groups()
            if base == "req":
                path = f
            elif base in scope:
                path = scope[base] + "." + f
            else:
                raise TranslateError(f"{HTTP_RS}: handler {h}: unknown variable {base!r} in {expr!r}")
        if (req_type, path) not in FIELDS:
            raise TranslateError(f"{HTTP_RS}: handler {h}: field {path!r} of {req_type} is not modelled")
        return path

    def code_of(ctor):
        return errs[ctors[ctor]]

    def stmts(scope, closing):
        while not p.done() and not (closing and p.at("}")):
            if p.at("log::"):
                p.rx(r"log::[a-z]+!")
                _a, p.i = parens(p.s, p.i, HTTP_RS, f"handler {h}")
                p.eat(";")
            elif p.at("let"):
                m = p.rx(r"let([a-z_]+)=req\.([a-z_]+)\.clone\(\);")
                aliases[m.group(1)] = m.group(2)
                field_of(m.group(1), scope)
            elif p.at("ifletSome("):
                m = p.rx(r"ifletSome\(([a-z_]+)\)=&req\.([a-z_]+)\{")
                var, f = m.groups()
                path = field_of("req." + f, scope)
                # the else branch decides first: present or not
                idx = len(checks)
                stmts(dict(scope, **{var: path}), True)
                p.eat("}")
                m = p.rx(r'else\{returnErr\(ApiError::missing_field\(("[^"]*")\)\);\}')
                if rust_lit(m.group(1), HTTP_RS) != path.split(".")[-1]:
                    raise TranslateError(f"{HTTP_RS}: handler {h}: missing_field names {m.group(1)} for field {path}")
                checks.insert(idx, (path, "CkPresent", code_of("missing_field")))
            elif p.at("if"):
                m = p.rx(r"if([a-z_.]+)\.(is_empty\(\)|len\(\)!=([A-Z_]+))\{returnErr\(ApiError::")
                expr, kind, const = m.groups()
                path = field_of(expr, scope)
                if kind == "is_empty()":
                    m = p.rx(r'empty_field\(("[^"]*")\)\);\}')
                    if rust_lit(m.group(1), HTTP_RS) != path.split(".")[-1]:
                        raise TranslateError(f"{HTTP_RS}: handler {h}: empty_field names {m.group(1)} for field {path}")
                    checks.append((path, "CkNonEmpty", code_of("empty_field")))
                else:
                    if const not in consts:
                        raise TranslateError(f"{HTTP_RS}: handler {h}: unknown length constant {const}")
                    m = p.rx(r'wrong_field_length\(("[^"]*"),' + re.escape(expr) + r"\.len\(\)," + const + r",?\)\);\}")
                    if rust_lit(m.group(1), HTTP_RS) != path.split(".")[-1]:
                        raise TranslateError(f"{HTTP_RS}: handler {h}: wrong_field_length names {m.group(1)} for field {path}")
                    checks.append((path, f"(CkSize {zlit(consts[const])})", code_of("wrong_field_length")))
            else:
                raise TranslateError(f"{HTTP_RS}: handler {h}: statement not modelled: {p.s[p.i:p.i+70]!r}")

    stmts({}, False)
    return req_type, [(FIELDS[(req_type, path)], kind, c) for path, kind, c in checks]


def ping_handler(sq, route):
    h = route["handler"]
    body, params = fn_body(sq, r"asyncfn" + h + r"\(", HTTP_RS, f"handler {h}")
    if params.rstrip(",") != "addr:Option<SocketAddr>":
        raise TranslateError(f"{HTTP_RS}: handler {h} has unexpected parameters")
    m = re.fullmatch(r"log::[a-z]+!\(.*\);Ok\(reply::reply\(\)\)", body)
    if not m:
        raise TranslateError(f"{HTTP_RS}: handler {h} does not just answer reply::reply()")


# ------------------------------------------------------------------------------------------------
# match_status, parse_grpc_response, handle_rejection
# ------------------------------------------------------------------------------------------------
def match_status(sq, errs):
    body, _p = fn_body(sq, r"fnmatch_status\(", HTTP_RS, "fn match_status")
    m = re.fullmatch(r"letmutstatus_code=StatusCode::([A-Z_]+);leterror_code=matchs\.code\(\)\{(.*)\};\(status_code,error_code\)", body)
    if not m:
        raise TranslateError(f"{HTTP_RS}: match_status has an unexpected shape")
    default_http = m.group(1)
    arms, default = [], None
    rest, i = m.group(2), 0
    arm_re = re.compile(r"(tonic::Code::([A-Za-z]+)|_)=>")
    while i < len(rest):
        am = arm_re.match(rest, i)
        if not am:
            raise TranslateError(f"{HTTP_RS}: match_status: cannot parse arm at {rest[i:i+60]!r}")
        i = am.end()
        http = default_http
        if rest[i] == "{":
            inner, i = braces(rest, i, HTTP_RS, "match_status arm")
            if i < len(rest) and rest[i] == ",":
                i += 1
            parts = inner.split(";")
            for stmt in parts[:-1]:
                sm = re.fullmatch(r"status_code=StatusCode::([A-Z_]+)", stmt)
                if sm:
                    http = sm.group(1)
                elif re.fullmatch(r"log::[a-z]+!\(.*\)", stmt):
                    continue
                else:
                    raise TranslateError(f"{HTTP_RS}: match_status: statement {stmt!r} is not modelled")
            val = parts[-1]
        else:
            j = rest.find(",", i)
            if j < 0:
                raise TranslateError(f"{HTTP_RS}: match_status: arm without a trailing comma")
            val, i = rest[i:j], j + 1
        em = re.fullmatch(r"errors::([A-Z_]+)", val)
        if not em or em.group(1) not in errs:
            raise TranslateError(f"{HTTP_RS}: match_status: arm value {val!r} is not an errors:: constant")
        row = (status_of(http, HTTP_RS, "match_status"), errs[em.group(1)])
        if am.group(1) == "_":
            if default is not None:
                raise TranslateError(f"{HTTP_RS}: match_status has two wildcard arms")
            default = row
        else:
            if default is not None:
                raise TranslateError(f"{HTTP_RS}: match_status: arm after the wildcard")
            if am.group(2) not in TONIC_CODES:
                raise TranslateError(f"{HTTP_RS}: match_status: unknown tonic code {am.group(2)}")
            arms.append((TONIC_CODES[am.group(2)], row[0], row[1]))
    if default is None:
        raise TranslateError(f"{HTTP_RS}: match_status has no wildcard arm")
    if len({a[0] for a in arms}) != len(arms):
        raise TranslateError(f"{HTTP_RS}: match_status has two arms for one tonic code")
    return arms, default


def parse_grpc_response(sq):
    body, _p = fn_body(sq, r"fnparse_grpc_response<T:serde::Serialize>\(", HTTP_RS, "fn parse_grpc_response")
    m = re.fullmatch(r"matchresult\{Ok\(r\)=>\{letinner=r\.into_inner\(\);(?:log::[a-z]+!\((?:[^;]|\"[^\"]*\")*\);)*\(reply::json\(&inner\),StatusCode::([A-Z_]+)\)\}"
                     r"Err\(s\)=>\{let\(status_code,error_code\)=match_status\(&s\);(?:log::[a-z]+!\((?:[^;]|\"[^\"]*\")*\);)*"
                     r"\(reply::json\(&ApiError::new\(s\.message\(\)\.into\(\),error_code\)\),status_code,?\)\}\}", body)
    if not m:
        raise TranslateError(f"{HTTP_RS}: parse_grpc_response has an unexpected shape")
    return status_of(m.group(1), HTTP_RS, "parse_grpc_response")


def handle_rejection(sq, errs):
    body, params = fn_body(sq, r"asyncfnhandle_rejection\(", HTTP_RS, "fn handle_rejection")
    if params.rstrip(",") != "err:Rejection":
        raise TranslateError(f"{HTTP_RS}: handle_rejection has unexpected parameters")
    p = P(body, "handle_rejection")
    p.eat("matcherr.find::<warp::body::BodyDeserializeError>(){Some(e)=>{")
    p.eat('letmuterror=e.source().map(|cause|cause.to_string()).unwrap_or_else(||"Invalid Body".to_string());')
    p.eat("leterror_code=")
    rows, default = [], None
    while True:
        if p.at("if"):
            p.eat("if")
            subs = []
            while True:
                m = p.rx(r'error\.contains\(("(?:[^"\\]|\\.)*")\)')
                subs.append(rust_lit(m.group(1), HTTP_RS))
                if p.at("||"):
                    p.eat("||")
                elif p.at("|"):
                    p.eat("|")
                else:
                    break
            inner, p.i = braces(p.s, p.i, HTTP_RS, "handle_rejection row")
            parts = inner.split(";")
            for stmt in parts[:-1]:
                # only the message text may be rewritten
                if not re.fullmatch(r"error=error\.split\(\"[^\"]*\"\)\.take\(1\)\.next\(\)\.unwrap_or\(&error\)\.into\(\)", stmt):
                    raise TranslateError(f"{HTTP_RS}: handle_rejection: statement {stmt!r} is not modelled")
            em = re.fullmatch(r"errors::([A-Z_]+)", parts[-1])
            if not em or em.group(1) not in errs:
                raise TranslateError(f"{HTTP_RS}: handle_rejection: row value {parts[-1]!r} is not an errors:: constant")
            if any(s == "" for s in subs):
                raise TranslateError(f"{HTTP_RS}: handle_rejection: empty substring")
            rows.append((subs, errs[em.group(1)]))
            p.eat("else")
        else:
            inner, p.i = braces(p.s, p.i, HTTP_RS, "handle_rejection default row")
            em = re.fullmatch(r"errors::([A-Z_]+)", inner)
            if not em or em.group(1) not in errs:
                raise TranslateError(f"{HTTP_RS}: handle_rejection: default row {inner!r} is not an errors:: constant")
            default = errs[em.group(1)]
            break
    p.eat(";")
    m = p.rx(r"Ok\(reply::with_status\(reply::json\(&ApiError\{error,error_code\}\),StatusCode::([A-Z_]+),?\)\)\}")
    body_status = status_of(m.group(1), HTTP_RS, "handle_rejection")
    m = p.rx(r"None=>matcherr\.find::<ApiError>\(\)\{Some\(x\)=>Ok\(reply::with_status\(reply::json\(x\),StatusCode::([A-Z_]+)\)\),None=>")
    api_status = status_of(m.group(1), HTTP_RS, "handle_rejection")
    # what is left: either handed back to warp at once, or first a chain of `if err.find::<warp::reject::K>().is_some() { json error } else`
    warp_rows = []
    if p.at("Err(err),"):
        p.eat("Err(err),")
    else:
        p.eat("{")
        while p.at("if"):
            m = p.rx(r"iferr\.find::<warp::reject::([A-Za-z]+)>\(\)\.is_some\(\)\{Ok\(reply::with_status\(reply::json\(&ApiError\{"
                     r'error:("(?:[^"\\]|\\.)*")\.to_owned\(\),error_code:errors::([A-Z_]+),?\}\),StatusCode::([A-Z_]+),?\)\)\}else')
            kind, lit, err, st = m.groups()
            rust_lit(lit, HTTP_RS)
            if kind not in WARP_KINDS:
                raise TranslateError(f"{HTTP_RS}: handle_rejection: warp rejection {kind} is not modelled")
            if err not in errs:
                raise TranslateError(f"{HTTP_RS}: handle_rejection: unknown error constant {err}")
            if kind in [k for k, _s, _c in warp_rows]:
                raise TranslateError(f"{HTTP_RS}: handle_rejection: warp rejection {kind} handled twice")
            warp_rows.append((kind, status_of(st, HTTP_RS, "handle_rejection"), errs[err]))
        p.eat("{Err(err)}}")
        if p.at(","):
            p.eat(",")
    p.eat("}")
    if p.at(","):
        p.eat(",")
    p.eat("}")
    if not p.done():
        raise TranslateError(f"{HTTP_RS}: handle_rejection: trailing text {p.s[p.i:p.i+60]!r}")
    return rows, default, body_status, api_status, warp_rows


# ------------------------------------------------------------------------------------------------
# internal.rs
# ------------------------------------------------------------------------------------------------
def locator_width(consts):
    rel = "teos-common/src/appointment.rs"
    sq = squeeze(code(rel))
    if "pubstructLocator([u8;LOCATOR_LEN]);" not in sq:
        raise TranslateError(f"{rel}: Locator is not a tuple struct over [u8; LOCATOR_LEN]")
    if "pubfnfrom_slice(data:&[u8])->Result<Self,TryFromSliceError>{data.try_into().map(Self)}" not in sq:
        raise TranslateError(f"{rel}: Locator::from_slice is not data.try_into().map(Self)")
    return consts["LOCATOR_LEN"]


def internal_api(routes, req_types, consts):
    sq = squeeze(code(INTERNAL_RS))
    csu, params = fn_body(sq, r"fncheck_service_unavailable\(", INTERNAL_RS, "fn check_service_unavailable")
    m = re.fullmatch(r"if\*self\.bitcoind_reachable\.0\.lock\(\)\.unwrap\(\)\{Ok\(\(\)\)\}else\{(?:log::[a-z]+!\(\"[^\"]*\"\);)?Err\(Status::new\(Code::([A-Za-z]+),\"[^\"]*\",?\)\)\}", csu)
    if not m or m.group(1) not in TONIC_CODES:
        raise TranslateError(f"{INTERNAL_RS}: check_service_unavailable has an unexpected shape")
    unavailable = TONIC_CODES[m.group(1)]
    impl = block_after(sq, r"implPublicTowerServicesforArc<InternalAPI>\{", INTERNAL_RS, "impl PublicTowerServices for Arc<InternalAPI>")
    loc_len = locator_width(consts)
    out = {}
    names = re.findall(r"asyncfn([a-z_]+)\(", impl)
    want = [r["handler"] for r in routes if r["grpc"]]
    if sorted(names) != sorted(want):
        raise TranslateError(f"{INTERNAL_RS}: PublicTowerServices implements {names}, the router forwards to {want}")
    for h in want:
        body, params = fn_body(impl, r"asyncfn" + h + r"\(", INTERNAL_RS, f"method {h}")
        pm = re.fullmatch(r"&self,request:Request<common_msgs::([A-Za-z]+)>,?", params)
        if not pm or pm.group(1) != req_types[h]:
            raise TranslateError(f"{INTERNAL_RS}: method {h} does not take the request type the HTTP handler forwards")
        req_type = pm.group(1)
        codes = []
        failures = []
        if body.startswith("self.check_service_unavailable()?;"):
            codes.append(unavailable)
        elif "check_service_unavailable" in body:
            raise TranslateError(f"{INTERNAL_RS}: method {h}: check_service_unavailable is not the first statement")
        # every Status constructed in the method
        n_status = len(re.findall(r"(?<![A-Za-z_])Status::", body))
        news = re.findall(r"(?<![A-Za-z_])Status::new\(Code::([A-Za-z]+),", body)
        if n_status != len(news) or any(c not in TONIC_CODES for c in news):
            raise TranslateError(f"{INTERNAL_RS}: method {h}: a Status is built in a way I cannot parse")
        if re.search(r"\bCode::", re.sub(r"Status::new\(Code::", "", body)):
            raise TranslateError(f"{INTERNAL_RS}: method {h}: tonic Code used outside Status::new(Code::X, ..)")
        # failure -> code rows
        covered = 0
        for m in re.finditer(r"((?:[A-Za-z]+Failure::[A-Za-z]+(?:\([a-z_]+\))?\|?)+)=>\{?(?:Err\()?Status::new\(Code::([A-Za-z]+),", body):
            for v in m.group(1).split("|"):
                vm = re.fullmatch(r"[A-Za-z]+Failure::([A-Za-z]+)(?:\([a-z_]+\))?", v)
                if not vm:
                    raise TranslateError(f"{INTERNAL_RS}: method {h}: cannot parse failure pattern {v!r}")
                failures.append((vm.group(1), TONIC_CODES[m.group(2)]))
            covered += 1
        m = re.search(r"UserId::from_slice\(&req_data\.user_id\)\.map_err\(\|_\|\{Status::new\(Code::([A-Za-z]+),", body)
        if m:
            failures.append(("BadUserId", TONIC_CODES[m.group(1)]))
            covered += 1
        m = re.search(r"Err\(_\)=>Err\(Status::new\(Code::([A-Za-z]+),", body)
        if m:
            failures.append(("Err", TONIC_CODES[m.group(1)]))
            covered += 1
        if covered != len(news):
            raise TranslateError(f"{INTERNAL_RS}: method {h}: {len(news)} Status::new sites but {covered} recognised failure rows")
        if len({f for f, _c in failures}) != len(failures):
            raise TranslateError(f"{INTERNAL_RS}: method {h}: a failure is mapped twice")
        codes += [c for _f, c in failures]
        # unwraps / expects
        if ".expect(" in body or "unwrap_unchecked" in body or re.search(r"\[[^\]]+\]", re.sub(r'"[^"]*"', "", body)):
            raise TranslateError(f"{INTERNAL_RS}: method {h}: expect / indexing is not modelled")
        requires = []
        aliases = {}
        n_unwrap = len(re.findall(r"\.unwrap\(\)", body))
        seen = 0
        for m in re.finditer(r"let([a-z_]+)=req_data\.([a-z_]+)\.unwrap\(\);", body):
            aliases[m.group(1)] = m.group(2)
            if (req_type, m.group(2)) not in FIELDS:
                raise TranslateError(f"{INTERNAL_RS}: method {h}: unwrap of unmodelled field {m.group(2)}")
            requires.append((FIELDS[(req_type, m.group(2))], "CkPresent"))
            seen += 1
        for m in re.finditer(r"Locator::from_slice\(&([a-z_]+)\.([a-z_]+)\)\.unwrap\(\)", body):
            base, f = m.groups()
            path = f if base == "req_data" else (aliases[base] + "." + f if base in aliases else None)
            if path is None or (req_type, path) not in FIELDS:
                raise TranslateError(f"{INTERNAL_RS}: method {h}: Locator::from_slice(&{base}.{f}).unwrap() on an unmodelled field")
            requires.append((FIELDS[(req_type, path)], f"(CkSize {zlit(loc_len)})"))
            seen += 1
        seen += len(re.findall(r"receipt\.signature\(\)\.unwrap\(\)", body))   # the tower's own signature: always Some once signed
        if seen != n_unwrap:
            raise TranslateError(f"{INTERNAL_RS}: method {h}: {n_unwrap} unwrap() sites, {seen} recognised")
        out[h] = {"codes": sorted(set(codes)), "failures": failures, "requires": requires}
    return out, unavailable


# ------------------------------------------------------------------------------------------------
@translate.register("Http.v")
def gen():
    errs_l = error_codes()
    errs = dict(errs_l)
    sq = squeeze(code(HTTP_RS))
    caps = dict(int_consts(HTTP_RS, CAP_NAMES))
    consts = dict(int_consts("teos-common/src/appointment.rs", ["LOCATOR_LEN"]) + int_consts("teos-common/src/lib.rs", ["USER_ID_LEN"]))
    for need in ("useteos_common::appointment::LOCATOR_LEN;", "useteos_common::{errors,USER_ID_LEN};"):
        if need not in sq:
            raise TranslateError(f"{HTTP_RS}: LOCATOR_LEN / USER_ID_LEN / errors are not the teos_common items")
    names = endpoint_names()
    ctors = api_error_ctors(sq, errs)
    routes = router(sq, caps, names)
    req_types = {}
    for r in routes:
        if r["grpc"]:
            r["req_type"], r["checks"] = handler_checks(sq, r, ctors, errs, consts)
            req_types[r["handler"]] = r["req_type"]
        else:
            ping_handler(sq, r)
            r["checks"] = []
    arms, dflt = match_status(sq, errs)
    ok_status = parse_grpc_response(sq)
    rej_rows, rej_default, rej_body_status, rej_api_status, rej_warp_rows = handle_rejection(sq, errs)
    internal, unavailable = internal_api(routes, req_types, consts)
    if "UNEXPECTED_ERROR" not in errs:
        raise TranslateError("teos-common/src/errors.rs: UNEXPECTED_ERROR not found")

    L = ["(* GENERATED by tools/translate_http.py from /repo - do not edit. *)",
         "From Coq Require Import ZArith NArith List.",
         "From TeosModel Require Import HttpBase.",
         "Import ListNotations.",
         "",
         "(* teos-common/src/errors.rs *)"]
    for n, v in errs_l:
        L.append(f"Definition H_ERR_{n} : Z := {zlit(v)}.")
    L.append("Definition H_ERROR_CODES : list Z := [" + "; ".join(f"H_ERR_{n}" for n, _v in errs_l) + "].")
    L.append("")
    L.append("(* teos/src/api/http.rs: body caps *)")
    for n in CAP_NAMES:
        L.append(f"Definition H_{n} : Z := {zlit(caps[n])}.")
    L.append("")
    L.append("(* teos/src/api/internal.rs: impl PublicTowerServices for Arc<InternalAPI> *)")
    L.append(f"Definition H_IA_UNAVAILABLE : Z := {zlit(unavailable)}.   (* check_service_unavailable *)")
    for r in routes:
        if not r["grpc"]:
            continue
        h = r["handler"]
        ia = internal[h]
        for f, c in ia["failures"]:
            L.append(f"Definition H_IA_{h}_{f} : Z := {zlit(c)}.")
        L.append(f"Definition H_INTERNAL_{h} : hinternal := mk_hinternal {coq_bytes(h)}")
        L.append("  [" + "; ".join(zlit(c) for c in ia["codes"]) + "]")
        L.append("  [" + "; ".join(f"({f}, {k})" for f, k in ia["requires"]) + "].")
    L.append("")
    L.append("(* teos/src/api/http.rs: handlers (field checks before forwarding, in order) and router (routes in .or order) *)")
    for r in routes:
        h = r["handler"]
        L.append(f"Definition H_CHECKS_{h} : list hcheck := [" + "; ".join(f"mk_hcheck {f} {k} {zlit(c)}" for f, k, c in r["checks"]) + "].")
        cap = f"(Some H_{r['cap'][0]})" if r["cap"] else "None"
        ia = f"(Some H_INTERNAL_{h})" if r["grpc"] else "None"
        L.append(f"Definition H_ROUTE_{h} : hroute := mk_hroute {coq_bytes(r['segment'])} {r['method']} {cap} H_CHECKS_{h} {ia}.")
    L.append("Definition H_ROUTES : list hroute := [" + "; ".join(f"H_ROUTE_{r['handler']}" for r in routes) + "].")
    L.append("")
    L.append("(* parse_grpc_response / match_status: tonic code -> (HTTP status, error_code); the catch-all arm *)")
    L.append(f"Definition H_OK_STATUS : Z := {zlit(ok_status)}.")
    L.append("Definition H_MATCH_STATUS : list (Z * (Z * Z)) := [" + "; ".join(f"({zlit(c)}, ({zlit(h)}, {zlit(e)}))" for c, h, e in arms) + "].")
    L.append(f"Definition H_MATCH_STATUS_DEFAULT : Z * Z := ({zlit(dflt[0])}, {zlit(dflt[1])}).")
    L.append("")
    L.append("(* handle_rejection: 1. BodyDeserializeError: the first row one of whose substrings the message contains; 2. ApiError; 3. falls through to warp *)")
    for subs, c in rej_rows:
        L.append("(*   " + " | ".join(repr(s) for s in subs) + f" -> {c} *)")
    L.append("Definition H_REJ_BODY_ROWS : list (list hbytes * Z) := [" + "; ".join("([" + "; ".join(coq_bytes(s) for s in subs) + f"], {zlit(c)})" for subs, c in rej_rows) + "].")
    L.append(f"Definition H_REJ_BODY_DEFAULT : Z := {zlit(rej_default)}.")
    L.append(f"Definition H_REJ_BODY_STATUS : Z := {zlit(rej_body_status)}.")
    L.append(f"Definition H_REJ_API_STATUS : Z := {zlit(rej_api_status)}.")
    L.append("(* 3.: err.find::<warp::reject::K>() rows answered with a JSON error (status, code), in source order; anything else goes back to warp *)")
    L.append("Definition H_REJ_WARP_ROWS : list (hwarpkind * (Z * Z)) := [" + "; ".join(f"({WARP_KINDS[k]}, ({zlit(st)}, {zlit(c)}))" for k, st, c in rej_warp_rows) + "].")
    L.append("")
    return "\n".join(L) + "\n"
