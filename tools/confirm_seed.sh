#!/bin/bash
# confirm_seed.sh <dir with patch.diff demo.diff demo_cmd.txt> [--suite]
# Confirms a seeded change independently, in the scratch worktree /work/seed/confirm of /repo (never /repo itself):
#   1. demo alone on the unchanged HEAD  -> must PASS
#   2. demo + patch                      -> must FAIL
#   3. (--suite) patch alone             -> the existing suite must still pass (cargo test --workspace)
# Prints one line per step; writes <dir>/confirm.log.
set -u
D=$(realpath "$1"); SUITE="${2:-}"
WT=/work/seed/confirm
mkdir -p /work/seed
[ -d $WT ] || git -C /repo worktree add -q --detach $WT HEAD
git -C $WT checkout -q --detach "$(git -C /repo rev-parse HEAD)"; git -C $WT checkout -q -- .; git -C $WT clean -fdq -e target
export CARGO_TARGET_DIR=$WT/target CARGO_NET_OFFLINE=true
LOG=$D/confirm.log; : > $LOG
CMD=$(grep -v '^\s*#' $D/demo_cmd.txt | grep cargo | head -1 | sed -E 's/CARGO_TARGET_DIR=[^ ]+ //; s/^cd [^;&]+(&&|;) *//; s/timeout [0-9]+ //')
[ -n "$CMD" ] || { echo "no demo command"; exit 2; }
run_demo() { (cd $WT && timeout 1500 bash -c "$CMD") >> $LOG 2>&1; }
git -C $WT apply $D/demo.diff || { echo "demo.diff does not apply"; exit 2; }
echo "### demo without patch" >> $LOG
if run_demo; then echo "1 demo without patch: PASS (expected)"; else echo "1 demo without patch: FAIL (UNEXPECTED)"; fi
git -C $WT apply $D/patch.diff || { echo "patch.diff does not apply on top of demo"; git -C $WT checkout -q -- .; exit 2; }
echo "### demo with patch" >> $LOG
if run_demo; then echo "2 demo with patch: PASS (UNEXPECTED)"; else echo "2 demo with patch: FAIL (expected)"; fi
git -C $WT checkout -q -- .; git -C $WT clean -fdq -e target
if [ "$SUITE" = "--suite" ]; then
  git -C $WT apply $D/patch.diff
  echo "### suite with patch" >> $LOG
  (cd $WT && timeout 2400 cargo test --workspace --no-fail-fast --offline 2>&1 | grep -E "^test result|FAILED|failed" ) > $D/suite.txt 2>&1
  cat $D/suite.txt >> $LOG
  P=$(grep -E "^test result" $D/suite.txt | sed -E 's/.* ([0-9]+) passed.*/\1/' | paste -sd+ | bc)
  F=$(grep -E "^test result" $D/suite.txt | sed -E 's/.* ([0-9]+) failed.*/\1/' | paste -sd+ | bc)
  echo "3 suite with patch: passed=$P failed=$F"
  git -C $WT checkout -q -- .
fi
