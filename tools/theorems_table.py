#!/usr/bin/env python3
"""theorems_table.py — regenerate, in DESIGN.md (between the THEOREMS markers), the list of property theorems per
property, read from coq/theories/Properties/*.v (names only; statements are in those files, pinned by tools/pins.json)."""
import os
import re
import sys

HERE = os.path.dirname(os.path.dirname(os.path.abspath(__file__)))
sys.path.insert(0, os.path.join(HERE, "tools"))
import vlib  # noqa: E402

pdir = os.path.join(HERE, "coq", "theories", "Properties")
per = {}
for fn in sorted(os.listdir(pdir)):
    if not fn.endswith(".v"):
        continue
    pid = fn[:3]
    src = vlib.strip_coq_comments(open(os.path.join(pdir, fn)).read())
    th = re.findall(r"^\s*Theorem\s+([A-Za-z0-9_']+)", src, re.M)
    ex = re.findall(r"^\s*Example\s+([A-Za-z0-9_']+)", src, re.M)
    e = per.setdefault(pid, {"files": [], "th": [], "ex": 0})
    e["files"].append(fn)
    e["th"] += th
    e["ex"] += len(ex)
out = []
for pid in sorted(per):
    e = per[pid]
    ref = [t for t in e["th"] if "refuted" in t]
    out.append(f"* **{pid}** ({', '.join(e['files'])}; {len(e['th'])} theorems, {e['ex']} examples"
               + (f"; refutations: {', '.join('`'+t+'`' for t in ref)}" if ref else "") + "): "
               + ", ".join("`" + t + "`" for t in e["th"] if "refuted" not in t))
p = os.path.join(HERE, "DESIGN.md")
s = open(p).read()
a = s.index("<!-- THEOREMS-BEGIN -->") + len("<!-- THEOREMS-BEGIN -->")
b = s.index("<!-- THEOREMS-END -->")
open(p, "w").write(s[:a] + "\n" + "\n".join(out) + "\n" + s[b:])
print(sum(len(e["th"]) for e in per.values()), "theorems in", len(per), "properties")
