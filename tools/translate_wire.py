"""translate_wire.py — generates coq/theories/Gen/WireSpec.v: the wire format as DATA.

Sources (all under VERIF_REPO, every one with one strict expected shape):
  teos-common/build.rs                 every .type_attribute / .field_attribute call (prost-build path matching)
  teos-common/proto/common/teos/v2/    message definitions of the public API
  teos/proto/teos/v2/tower_services.proto   rpc -> (request, reply) of PublicTowerServices
  teos-common/src/ser.rs               shape of serde_be / serde_vec_bytes / serde_status (pinned)
  teos-common/src/appointment.rs       AppointmentStatus tables, Appointment::to_vec, Locator width
  teos-common/src/receipts.rs          RegistrationReceipt::to_vec, AppointmentReceipt::to_vec
  teos-common/src/lib.rs               UserId width
  teos-common/src/net/http.rs          Endpoint names
  teos/src/api/http.rs                 router (path, body cap, handler), handler request types, ApiError, match_status
  teos/src/watcher.rs                  the messages the tower authenticates requests against
  watchtower-plugin/src/net/http.rs    ApiResponse<T> | ApiError, how register / add_appointment replies are decoded
  watchtower-plugin/src/main.rs        how get_appointment / get_subscription_info replies are decoded, signed messages
"""
import re
import translate
from translate import TranslateError, code, read, strip_comments, int_consts

PROTO_DIR = "teos-common/proto/common/teos/v2"
PROTO_FILES = ["appointment.proto", "user.proto"]
PACKAGE = "common.teos.v2"


# ------------------------------------------------------------------------------------------------
# proto files
# ------------------------------------------------------------------------------------------------
def proto_tokens(src):
    src = strip_comments(src)
    return re.findall(r"[A-Za-z_][A-Za-z0-9_.]*|[0-9]+|\"[^\"]*\"|[{}=;()<>,\[\]]", src)


class Toks:
    def __init__(self, toks, what):
        self.t, self.i, self.what = toks, 0, what

    def peek(self):
        return self.t[self.i] if self.i < len(self.t) else None

    def next(self):
        if self.i >= len(self.t):
            raise TranslateError(f"{self.what}: unexpected end of file")
        x = self.t[self.i]
        self.i += 1
        return x

    def expect(self, x):
        y = self.next()
        if y != x:
            raise TranslateError(f"{self.what}: expected {x!r}, found {y!r}")


SCALARS = {"bytes", "string", "uint32"}


def parse_message(tk, rel):
    """message Name { fields | oneof | enum }  ->  dict"""
    name = tk.next()
    tk.expect("{")
    fields, enums = [], {}
    while tk.peek() != "}":
        t = tk.next()
        if t == "enum":
            en = tk.next()
            tk.expect("{")
            vals = []
            while tk.peek() != "}":
                vn = tk.next()
                tk.expect("=")
                vals.append((vn, int(tk.next())))
                tk.expect(";")
            tk.expect("}")
            enums[en] = vals
        elif t == "oneof":
            on = tk.next()
            tk.expect("{")
            variants = []
            while tk.peek() != "}":
                ty = tk.next()
                fn = tk.next()
                tk.expect("=")
                tag = int(tk.next())
                tk.expect(";")
                variants.append((ty, fn, tag))
            tk.expect("}")
            fields.append({"name": on, "oneof": variants})
        elif t in ("message", "map", "optional", "reserved", "option", "extensions", "group"):
            raise TranslateError(f"{rel}: unsupported construct {t!r} inside message {name}")
        else:
            repeated = False
            if t == "repeated":
                repeated = True
                t = tk.next()
            fn = tk.next()
            tk.expect("=")
            tag = int(tk.next())
            if tk.peek() == "[":
                raise TranslateError(f"{rel}: field options are not supported ({name}.{fn})")
            tk.expect(";")
            fields.append({"name": fn, "type": t, "repeated": repeated, "tag": tag})
    tk.expect("}")
    return {"name": name, "fields": fields, "enums": enums}


def parse_proto(rel):
    tk = Toks(proto_tokens(read(rel)), rel)
    tk.expect("syntax")
    tk.expect("=")
    if tk.next() != '"proto3"':
        raise TranslateError(f"{rel}: not proto3")
    tk.expect(";")
    pkg = None
    msgs, services = [], {}
    while tk.peek() is not None:
        t = tk.next()
        if t == "package":
            pkg = tk.next()
            tk.expect(";")
        elif t == "import":
            tk.next()
            tk.expect(";")
        elif t == "message":
            msgs.append(parse_message(tk, rel))
        elif t == "service":
            sn = tk.next()
            tk.expect("{")
            rpcs = []
            while tk.peek() != "}":
                tk.expect("rpc")
                rn = tk.next()
                tk.expect("(")
                a = tk.next()
                tk.expect(")")
                tk.expect("returns")
                tk.expect("(")
                b = tk.next()
                tk.expect(")")
                tk.expect("{")
                tk.expect("}")
                rpcs.append((rn, a, b))
            tk.expect("}")
            services[sn] = rpcs
        else:
            raise TranslateError(f"{rel}: unsupported top-level construct {t!r}")
    return pkg, msgs, services


# ------------------------------------------------------------------------------------------------
# build.rs: attribute calls, prost-build 0.12 path matching
# ------------------------------------------------------------------------------------------------
def rust_str_lit(s):
    """value of a Rust string literal token (simple escapes only)"""
    assert s[0] == '"' and s[-1] == '"'
    body = s[1:-1]
    out, i = [], 0
    while i < len(body):
        if body[i] == "\\":
            if i + 1 >= len(body) or body[i + 1] not in '"\\':
                raise TranslateError(f"string literal {s!r}: unsupported escape")
            out.append(body[i + 1])
            i += 2
        else:
            out.append(body[i])
            i += 1
    return "".join(out)


def parse_build_rs(rel):
    src = strip_comments(read(rel))
    m = re.search(r"tonic_build::configure\(\)", src)
    if not m:
        raise TranslateError(f"{rel}: tonic_build::configure() not found")
    i = m.end()
    calls = []
    lit = r'"(?:[^"\\]|\\.)*"'
    call_re = re.compile(r"\s*\.\s*([a-z_]+)\s*\(")
    while True:
        cm = call_re.match(src, i)
        if not cm:
            break
        name = cm.group(1)
        i = cm.end()
        if name in ("type_attribute", "field_attribute"):
            am = re.compile(r"\s*(" + lit + r")\s*,\s*(" + lit + r")\s*,?\s*\)").match(src, i)
            if not am:
                raise TranslateError(f"{rel}: .{name}(..) call whose arguments are not two string literals")
            calls.append((name, rust_str_lit(am.group(1)), rust_str_lit(am.group(2))))
            i = am.end()
        elif name == "compile":
            am = re.compile(r"\s*&\[((?:\s*" + lit + r"\s*,?)*)\s*\]\s*,\s*&\[((?:\s*" + lit + r"\s*,?)*)\s*\]\s*,?\s*\)").match(src, i)
            if not am:
                raise TranslateError(f"{rel}: .compile(&[..], &[..]) has an unexpected shape")
            files = [rust_str_lit(x) for x in re.findall(lit, am.group(1))]
            calls.append(("compile", files, None))
            i = am.end()
            break
        else:
            raise TranslateError(f"{rel}: unsupported tonic_build builder call .{name}(..)")
    if not calls or calls[-1][0] != "compile":
        raise TranslateError(f"{rel}: builder chain does not end in .compile(..)")
    return calls


def sub_paths(fq):
    """prost-build path.rs sub_path_iter: the path, its suffixes, its prefixes, the global path."""
    out = [fq]
    p = fq
    while True:
        parts = p.split(".", 1)
        if len(parts) < 2 or parts[1] == "":
            break
        p = parts[1]
        out.append(p)
    p = fq
    while True:
        parts = p.rsplit(".", 1)
        if len(parts) < 2 or parts[0] == "":
            break
        p = parts[0]
        out.append(p)
    out.append(".")
    return out


def matching(calls, which, fq):
    sp = set(sub_paths(fq))
    return [attr for (kind, path, attr) in calls if kind == which and path in sp]


WITH_KINDS = {
    "hex::serde": "hex",
    "crate::ser::serde_be": "be",
    "crate::ser::serde_vec_bytes": "vec",
    "crate::ser::serde_status": "status",
}


def parse_attr(attr, where):
    """'#[serde(a, b = "c")]' / '#[derive(..)]' -> ('serde', {a: True, b: 'c'}) / ('derive', [..])"""
    a = attr.strip()
    m = re.fullmatch(r"#\[\s*([a-z_]+)\s*\((.*)\)\s*\]", a, re.S)
    if not m:
        raise TranslateError(f"{where}: attribute {attr!r} has an unexpected shape")
    head, body = m.group(1), m.group(2)
    if head == "derive":
        return "derive", [x.strip() for x in body.split(",") if x.strip()]
    if head != "serde":
        raise TranslateError(f"{where}: unsupported attribute {attr!r}")
    items = {}
    for it in re.findall(r'[a-z_]+\s*=\s*"[^"]*"|[a-z_]+', body):
        if "=" in it:
            k, v = it.split("=", 1)
            items[k.strip()] = v.strip()[1:-1]
        else:
            items[it.strip()] = True
    rebuilt = re.sub(r"\s+", "", ",".join(re.findall(r'[a-z_]+\s*=\s*"[^"]*"|[a-z_]+', body)))
    if rebuilt != re.sub(r"\s+", "", body).rstrip(","):
        raise TranslateError(f"{where}: cannot parse serde attribute {attr!r}")
    return "serde", items


def serde_items(attrs, where, allowed):
    items = {}
    derives = []
    for a in attrs:
        kind, val = parse_attr(a, where)
        if kind == "derive":
            derives += val
        else:
            for k, v in val.items():
                if k not in allowed:
                    raise TranslateError(f"{where}: serde attribute `{k}` is not modelled")
                if k in items:
                    raise TranslateError(f"{where}: serde attribute `{k}` given twice")
                items[k] = v
    return items, derives


# ------------------------------------------------------------------------------------------------
# Coq text helpers
# ------------------------------------------------------------------------------------------------
STR_CONSTS = {}   # literal -> Coq constant name (emitted at the top of the generated file, already evaluated to bytes,
                  # so that no Coq `string` value survives into the extracted model)


def coq_str(s):
    if not re.fullmatch(r"[ -!#-~]*", s):
        raise TranslateError(f"name {s!r} is not printable ASCII without quotes")
    if s not in STR_CONSTS:
        base = "W_s_" + (re.sub(r"[^A-Za-z0-9]+", "_", s).strip("_") or "empty")
        name, i = base, 1
        while name in STR_CONSTS.values():
            i += 1
            name = f"{base}_{i}"
        STR_CONSTS[s] = name
    return STR_CONSTS[s]


def snake_to_camel(s):
    return "".join(p.capitalize() for p in s.lower().split("_"))


# ------------------------------------------------------------------------------------------------
# messages
# ------------------------------------------------------------------------------------------------
def build_messages():
    calls = parse_build_rs("teos-common/build.rs")
    compiled = calls[-1][1]
    expected = [f"proto/common/teos/v2/{f}" for f in PROTO_FILES]
    if sorted(compiled) != sorted(expected):
        raise TranslateError(f"teos-common/build.rs: compiles {compiled}, expected {expected}")
    msgs = {}
    order = []
    for f in PROTO_FILES:
        rel = f"{PROTO_DIR}/{f}"
        pkg, ms, _ = parse_proto(rel)
        if pkg != PACKAGE:
            raise TranslateError(f"{rel}: package {pkg!r}, expected {PACKAGE!r}")
        for m in ms:
            if m["name"] in msgs:
                raise TranslateError(f"message {m['name']} defined twice")
            msgs[m["name"]] = m
            order.append(m["name"])
    specs = {}   # name -> coq term
    table = {}   # name -> python description (for documentation in the generated file)

    def type_attrs(fq, where, allowed):
        items, derives = serde_items(matching(calls, "type_attribute", fq), where, allowed)
        if "serde::Serialize" not in derives or "serde::Deserialize" not in derives:
            raise TranslateError(f"{where}: does not derive serde::Serialize and serde::Deserialize")
        return items

    enum_types = {}
    for mn in order:
        for en in msgs[mn]["enums"]:
            enum_types[en] = (mn, msgs[mn]["enums"][en])

    def spec_of(mn, stack=()):
        if mn in specs:
            return specs[mn]
        if mn in stack:
            raise TranslateError(f"recursive message {mn}")
        if mn not in msgs:
            raise TranslateError(f"unknown message type {mn}")
        m = msgs[mn]
        fq = f".{PACKAGE}.{mn}"
        if type_attrs(fq, f"message {mn}", allowed=()):
            raise TranslateError(f"message {mn}: container serde attributes are not modelled")
        rows = []
        oneofs = [f for f in m["fields"] if "oneof" in f]
        if oneofs:
            if len(m["fields"]) != 1:
                raise TranslateError(f"message {mn}: a oneof next to other fields is not modelled")
            f = oneofs[0]
            where = f"{mn}.{f['name']}"
            fitems, _ = serde_items(matching(calls, "field_attribute", f"{fq}.{f['name']}"), where, ("flatten", "rename"))
            if "flatten" not in fitems:
                raise TranslateError(f"{where}: oneof field without #[serde(flatten)] is not modelled")
            eitems = type_attrs(f"{fq}.{f['name']}", f"oneof {where}", allowed=("untagged",))
            if "untagged" not in eitems:
                raise TranslateError(f"oneof {where}: enum without #[serde(untagged)] is not modelled")
            variants = []
            for ty, fn, _tag in f["oneof"]:
                if matching(calls, "field_attribute", f"{fq}.{f['name']}.{fn}"):
                    raise TranslateError(f"{where}.{fn}: attributes on oneof variants are not modelled")
                if ty in SCALARS or ty in enum_types:
                    raise TranslateError(f"{where}.{fn}: non-message oneof variant is not modelled")
                variants.append((fn, ty, spec_of(ty, stack + (mn,))))
            specs[mn] = "WMFlatOneof (w_mlist [" + "; ".join("W_" + ty for _fn, ty, _s in variants) + "])"
            table[mn] = [("(flatten, untagged)", " | ".join(ty for _fn, ty, _s in variants))]
            return specs[mn]
        for f in m["fields"]:
            where = f"{mn}.{f['name']}"
            items, _ = serde_items(matching(calls, "field_attribute", f"{fq}.{f['name']}"), where, ("rename", "with"))
            jname = items.get("rename", f["name"])
            w = items.get("with")
            if w is not None and w not in WITH_KINDS:
                raise TranslateError(f"{where}: #[serde(with = {w!r})] is not a codec I know")
            w = WITH_KINDS.get(w)
            ty, rep = f["type"], f["repeated"]
            if ty == "bytes" and not rep:
                kind = {"hex": "KHex", "be": "KHexBE", None: "KBytesArr"}.get(w)
            elif ty == "bytes" and rep:
                kind = {"vec": "KVecHex"}.get(w)
            elif ty == "uint32" and not rep:
                kind = {None: "KU32"}.get(w)
            elif ty == "string" and not rep:
                kind = {None: "KStr"}.get(w)
            elif ty in enum_types and not rep:
                kind = {"status": "KStatus"}.get(w)
                if ty != "AppointmentStatus":
                    kind = None
            elif ty in msgs and not rep:
                spec_of(ty, stack + (mn,))
                kind = {None: f"KOptMsg W_{ty}"}.get(w)
            else:
                kind = None
            if kind is None:
                raise TranslateError(f"{where}: proto type {'repeated ' if rep else ''}{ty} with codec {items.get('with')!r} is not modelled")
            rows.append((jname, kind, f["name"], ty))
        names = [r[0] for r in rows]
        if len(set(names)) != len(names):
            raise TranslateError(f"message {mn}: two fields share a JSON name")
        specs[mn] = "WMStruct (w_flist [" + "; ".join(f"({coq_str(j)}, {k})" for j, k, _n, _t in rows) + "])"
        table[mn] = [(n, f"{t} -> \"{j}\" {k}") for j, k, n, t in rows]
        return specs[mn]

    emitted = []
    for mn in order:
        spec_of(mn)
    # dependency order = order of first completion
    done = []

    def visit(mn):
        if mn in done:
            return
        for f in msgs[mn]["fields"]:
            if "oneof" in f:
                for ty, _fn, _t in f["oneof"]:
                    visit(ty)
            elif f["type"] in msgs:
                visit(f["type"])
        done.append(mn)

    for mn in order:
        visit(mn)
    for mn in done:
        emitted.append((mn, specs[mn], table[mn]))
    return emitted, enum_types


# ------------------------------------------------------------------------------------------------
# ser.rs: the three codec modules must have exactly the shape the model's codecs follow
# ------------------------------------------------------------------------------------------------
def norm(s):
    return re.sub(r"\s+", "", s)


def rust_mod_body(src, name, rel):
    m = re.search(r"pub\s+mod\s+" + name + r"\s*\{", src)
    if not m:
        raise TranslateError(f"{rel}: module {name} not found")
    i, depth = m.end(), 1
    while i < len(src) and depth:
        depth += {"{": 1, "}": -1}.get(src[i], 0)
        i += 1
    return src[m.end() : i - 1]


def check_ser_rs():
    rel = "teos-common/src/ser.rs"
    src = code(rel)
    pins = {
        "serde_be": [
            "pubfnserialize<S>(v:&[u8],s:S)->Result<S::Ok,S::Error>whereS:Serializer,{letmutv=v.to_owned();v.reverse();hex::serialize(v,s)}",
            "fnvisit_str<E>(self,v:&str)->Result<Self::Value,E>whereE:de::Error,{letmutv=hex::decode(v).map_err(|_|E::custom(\"cannotdeserializethegivenvalue\"))?;v.reverse();Ok(v)}",
            "deserializer.deserialize_any(BEVisitor)",
        ],
        "serde_vec_bytes": [
            "pubfnserialize<S>(v:&[Vec<u8>],s:S)->Result<S::Ok,S::Error>whereS:Serializer,{letmutseq=s.serialize_seq(Some(v.len()))?;forelementinv.iter(){seq.serialize_element(&hex::encode(element))?;}seq.end()}",
            "letmutresult=Vec::new();whileletSome(v)=seq.next_element::<String>()?{result.push(hex::decode(v).map_err(|_|{de::Error::custom(\"cannotdeserializethegivenvalue\")})?);}Ok(result)",
            "deserializer.deserialize_any(VecVisitor)",
        ],
        "serde_status": [
            "pubfnserialize<S>(status:&i32,serializer:S)->Result<S::Ok,S::Error>whereS:Serializer,{serializer.serialize_str(&AppointmentStatus::from(*status).to_string())}",
            "fnvisit_str<E>(self,v:&str)->Result<Self::Value,E>whereE:de::Error,{letstatus=AppointmentStatus::from_str(v).map_err(|_|E::custom(\"givenstatusisunknown\"))?;Ok(statusasi32)}",
            "deserializer.deserialize_any(StatusVisitor)",
        ],
    }
    for mod, frags in pins.items():
        body = norm(rust_mod_body(src, mod, rel))
        for fr in frags:
            if fr not in body:
                raise TranslateError(f"{rel}: module {mod} no longer has the shape the model follows (expected fragment: {fr[:70]}...)")
        n_visit = len(re.findall(r"fnvisit_[a-z_0-9]+", body))
        if n_visit != 1:
            raise TranslateError(f"{rel}: module {mod}: the visitor implements {n_visit} visit_* methods, expected 1")


# ------------------------------------------------------------------------------------------------
# AppointmentStatus tables
# ------------------------------------------------------------------------------------------------
def rust_block_after(src, header_re, rel, what):
    m = re.search(header_re, src)
    if not m:
        raise TranslateError(f"{rel}: {what} not found")
    i = src.index("{", m.end() - 1) if src[m.end() - 1] != "{" else m.end() - 1
    j, depth = i + 1, 1
    while j < len(src) and depth:
        depth += {"{": 1, "}": -1}.get(src[j], 0)
        j += 1
    return src[i + 1 : j - 1]


def status_tables(enum_types):
    rel = "teos-common/src/appointment.rs"
    src = code(rel)
    body = rust_block_after(src, r"pub\s+enum\s+AppointmentStatus\s*\{", rel, "enum AppointmentStatus")
    variants = []
    for part in [p.strip() for p in body.split(",") if p.strip()]:
        m = re.fullmatch(r"([A-Z][A-Za-z0-9]*)\s*=\s*(-?[0-9]+)", part)
        if not m:
            raise TranslateError(f"{rel}: AppointmentStatus variant {part!r} has no explicit discriminant")
        variants.append((m.group(1), int(m.group(2))))
    vnames = [v for v, _ in variants]

    imp = rust_block_after(src, r"impl\s+From<i32>\s+for\s+AppointmentStatus\s*\{", rel, "impl From<i32> for AppointmentStatus")
    mb = rust_block_after(imp, r"match\s+x\s*\{", rel, "match x in From<i32>")
    from_i32, default = [], None
    for arm in [a.strip() for a in mb.split(",") if a.strip()]:
        m = re.fullmatch(r"(-?[0-9]+|_)\s*=>\s*AppointmentStatus::([A-Za-z0-9]+)", arm)
        if not m or m.group(2) not in vnames:
            raise TranslateError(f"{rel}: From<i32> arm {arm!r} has an unexpected shape")
        if m.group(1) == "_":
            default = m.group(2)
        else:
            if default is not None:
                raise TranslateError(f"{rel}: From<i32> has an arm after the wildcard")
            from_i32.append((int(m.group(1)), m.group(2)))
    if default is None:
        raise TranslateError(f"{rel}: From<i32> has no wildcard arm")

    imp = rust_block_after(src, r"impl\s+std::str::FromStr\s+for\s+AppointmentStatus\s*\{", rel, "impl FromStr for AppointmentStatus")
    mb = rust_block_after(imp, r"match\s+s\s*\{", rel, "match s in FromStr")
    from_str = []
    saw_wild = False
    for arm in [a.strip() for a in re.split(r",(?![^()]*\))", mb) if a.strip()]:
        m = re.fullmatch(r'"([^"\\]*)"\s*=>\s*Ok\(AppointmentStatus::([A-Za-z0-9]+)\)', arm)
        if m and m.group(2) in vnames and not saw_wild:
            from_str.append((m.group(1), m.group(2)))
        elif re.fullmatch(r"_\s*=>\s*Err\(.*\)", arm, re.S):
            saw_wild = True
        else:
            raise TranslateError(f"{rel}: FromStr arm {arm!r} has an unexpected shape")
    if not saw_wild:
        raise TranslateError(f"{rel}: FromStr has no `_ => Err(..)` arm")

    imp = rust_block_after(src, r"impl\s+fmt::Display\s+for\s+AppointmentStatus\s*\{", rel, "impl Display for AppointmentStatus")
    mb = rust_block_after(imp, r"let\s+s\s*=\s*match\s+self\s*\{", rel, "match self in Display")
    display = []
    for arm in [a.strip() for a in mb.split(",") if a.strip()]:
        m = re.fullmatch(r'AppointmentStatus::([A-Za-z0-9]+)\s*=>\s*"([^"\\]*)"', arm)
        if not m or m.group(1) not in vnames:
            raise TranslateError(f"{rel}: Display arm {arm!r} has an unexpected shape")
        display.append((m.group(1), m.group(2)))
    if 'write!(f,"{s}")' not in norm(imp):
        raise TranslateError(f"{rel}: Display does not end in write!(f, \"{{s}}\")")

    if "AppointmentStatus" not in enum_types:
        raise TranslateError("proto: enum AppointmentStatus not found")
    owner, pvals = enum_types["AppointmentStatus"]
    if owner != "GetAppointmentResponse":
        raise TranslateError("proto: enum AppointmentStatus is not nested in GetAppointmentResponse")
    proto = [(snake_to_camel(n), v) for n, v in pvals]
    return variants, from_i32, default, from_str, display, proto


# ------------------------------------------------------------------------------------------------
# to_vec layouts
# ------------------------------------------------------------------------------------------------
def struct_fields_of(src, name, rel):
    body = rust_block_after(src, r"pub\s+struct\s+" + name + r"\s*\{", rel, f"struct {name}")
    body = re.sub(r"#\[[^\]]*\]", "", body)
    out = {}
    for part in [p.strip() for p in body.split(",") if p.strip()]:
        m = re.fullmatch(r"(?:pub\s+)?([a-z_][a-z0-9_]*)\s*:\s*(.+)", part, re.S)
        if not m:
            raise TranslateError(f"{rel}: struct {name}: cannot parse field {part!r}")
        out[m.group(1)] = norm(m.group(2))
    return out


def to_vec_layout(rel, struct, widths):
    src = code(rel)
    fields = struct_fields_of(src, struct, rel)
    impl = None
    for m in re.finditer(r"impl\s+" + struct + r"\s*\{", src):
        b = rust_block_after(src[m.start():], r"impl\s+" + struct + r"\s*\{", rel, f"impl {struct}")
        if re.search(r"pub\s+fn\s+to_vec\s*\(", b):
            impl = b
    if impl is None:
        raise TranslateError(f"{rel}: impl {struct} with to_vec not found")
    body = rust_block_after(impl, r"pub\s+fn\s+to_vec\s*\(\s*&self\s*\)\s*->\s*Vec<u8>\s*\{", rel, f"{struct}::to_vec")
    stmts = [norm(s) for s in body.split(";")]
    if len(stmts) < 2:
        raise TranslateError(f"{rel}: {struct}::to_vec has an unexpected shape")
    var = None
    items = []

    def item(field, how):
        if field not in fields:
            raise TranslateError(f"{rel}: {struct}::to_vec uses unknown field {field}")
        ty = fields[field]
        if how in ("be", "le"):
            if ty != "u32":
                raise TranslateError(f"{rel}: {struct}.{field}: to_{how}_bytes on type {ty} is not modelled")
            return (field, "WLBE32" if how == "be" else "WLLE32")
        if how == "to_vec":
            if ty not in widths:
                raise TranslateError(f"{rel}: {struct}.{field}: .to_vec() on type {ty} is not modelled")
            return (field, f"WLFixed {widths[ty]}")
        if how == "ref":
            if ty != "Vec<u8>":
                raise TranslateError(f"{rel}: {struct}.{field}: extend(&..) on type {ty} is not modelled")
            return (field, "WLVar")
        if how == "as_bytes":
            if ty != "String":
                raise TranslateError(f"{rel}: {struct}.{field}: .as_bytes() on type {ty} is not modelled")
            return (field, "WLVar")
        raise TranslateError("internal")

    first = stmts[0]
    m = re.fullmatch(r"letmut([a-z_]+)=self\.([a-z_0-9]+)\.to_vec\(\)", first)
    if m:
        var = m.group(1)
        items.append(item(m.group(2), "to_vec"))
    else:
        m = re.fullmatch(r"letmut([a-z_]+)=Vec::new\(\)", first)
        if not m:
            raise TranslateError(f"{rel}: {struct}::to_vec: unexpected first statement {first!r}")
        var = m.group(1)
    pats = [
        (var + r"\.extend\(&self\.([a-z_0-9]+)\)", "ref"),
        (var + r"\.extend\(self\.([a-z_0-9]+)\.to_(be|le)_bytes\(\)\.to_vec\(\)\)", None),
        (var + r"\.extend_from_slice\(&self\.([a-z_0-9]+)\.to_vec\(\)\)", "to_vec"),
        (var + r"\.extend_from_slice\(&self\.([a-z_0-9]+)\.to_(be|le)_bytes\(\)\)", None),
        (var + r"\.extend_from_slice\(self\.([a-z_0-9]+)\.as_bytes\(\)\)", "as_bytes"),
    ]
    for s in stmts[1:-1]:
        for pat, how in pats:
            m = re.fullmatch(pat, s)
            if m:
                items.append(item(m.group(1), how if how else m.group(2)))
                break
        else:
            raise TranslateError(f"{rel}: {struct}::to_vec: statement {s!r} is not modelled")
    if stmts[-1] != var:
        raise TranslateError(f"{rel}: {struct}::to_vec does not end by returning {var}")
    return items


def layouts():
    ap = code("teos-common/src/appointment.rs")
    if not re.search(r"pub\s+struct\s+Locator\s*\(\s*\[\s*u8\s*;\s*LOCATOR_LEN\s*\]\s*\)", ap):
        raise TranslateError("teos-common/src/appointment.rs: struct Locator([u8; LOCATOR_LEN]) not found")
    if "pubfnto_vec(&self)->Vec<u8>{self.0.to_vec()}" not in norm(rust_block_after(ap, r"impl\s+Locator\s*\{", "appointment.rs", "impl Locator")):
        raise TranslateError("teos-common/src/appointment.rs: Locator::to_vec has an unexpected shape")
    lib = code("teos-common/src/lib.rs")
    if not re.search(r"pub\s+struct\s+UserId\s*\(\s*pub\s+PublicKey\s*\)", lib):
        raise TranslateError("teos-common/src/lib.rs: struct UserId(pub PublicKey) not found")
    if "pubfnto_vec(&self)->Vec<u8>{self.0.serialize().to_vec()}" not in norm(rust_block_after(lib, r"impl\s+UserId\s*\{", "lib.rs", "impl UserId")):
        raise TranslateError("teos-common/src/lib.rs: UserId::to_vec has an unexpected shape")
    loc_len = dict(int_consts("teos-common/src/appointment.rs", ["LOCATOR_LEN"]))["LOCATOR_LEN"]
    uid_len = dict(int_consts("teos-common/src/lib.rs", ["USER_ID_LEN"]))["USER_ID_LEN"]
    if uid_len != 33:
        # PublicKey::serialize() is the 33-byte compressed encoding whatever the constant says
        raise TranslateError("teos-common/src/lib.rs: USER_ID_LEN differs from the width of a compressed public key (33)")
    widths = {"Locator": loc_len, "UserId": uid_len}
    return [
        ("APPOINTMENT_TO_VEC", "Appointment::to_vec", to_vec_layout("teos-common/src/appointment.rs", "Appointment", widths)),
        ("REGISTRATION_RECEIPT_TO_VEC", "RegistrationReceipt::to_vec", to_vec_layout("teos-common/src/receipts.rs", "RegistrationReceipt", widths)),
        ("APPOINTMENT_RECEIPT_TO_VEC", "AppointmentReceipt::to_vec", to_vec_layout("teos-common/src/receipts.rs", "AppointmentReceipt", widths)),
    ]


# ------------------------------------------------------------------------------------------------
# hand-written serde structs: ApiError (both sides), ApiResponse (client)
# ------------------------------------------------------------------------------------------------
def api_error_spec(rel):
    src = code(rel)
    m = re.search(r"((?:#\[[^\]]*\]\s*)*)pub(?:\(crate\))?\s+struct\s+ApiError\s*\{", src)
    if not m:
        raise TranslateError(f"{rel}: struct ApiError not found")
    attrs = m.group(1)
    der = re.findall(r"#\[derive\(([^)]*)\)\]", attrs)
    derived = [x.strip() for d in der for x in d.split(",")]
    if "Serialize" not in derived or "Deserialize" not in derived:
        raise TranslateError(f"{rel}: ApiError does not derive Serialize and Deserialize")
    if re.search(r"#\[\s*serde", attrs):
        raise TranslateError(f"{rel}: container serde attributes on ApiError are not modelled")
    body = rust_block_after(src, r"struct\s+ApiError\s*\{", rel, "struct ApiError")
    rows = []
    for part in [p.strip() for p in body.split(",") if p.strip()]:
        m = re.fullmatch(r"((?:#\[[^\]]*\]\s*)*)(?:pub\s+)?([a-z_][a-z0-9_]*)\s*:\s*([A-Za-z0-9_<>]+)", part, re.S)
        if not m:
            raise TranslateError(f"{rel}: ApiError: cannot parse field {part!r}")
        fattrs, name, ty = m.group(1), m.group(2), m.group(3)
        jname = name
        for a in re.findall(r"#\[[^\]]*\]", fattrs):
            kind, items = parse_attr(a, f"{rel}: ApiError.{name}")
            if kind != "serde" or set(items) - {"rename"}:
                raise TranslateError(f"{rel}: ApiError.{name}: attribute {a!r} is not modelled")
            jname = items.get("rename", jname)
        k = {"String": "KStr", "u8": "KU8", "u32": "KU32"}.get(ty)
        if k is None:
            raise TranslateError(f"{rel}: ApiError.{name}: type {ty} is not modelled")
        rows.append((jname, k))
    return "WMStruct (w_flist [" + "; ".join(f"({coq_str(j)}, {k})" for j, k in rows) + "])"


def api_response_order():
    rel = "watchtower-plugin/src/net/http.rs"
    src = code(rel)
    m = re.search(r"((?:#\[[^\]]*\]\s*)*)pub\s+enum\s+ApiResponse\s*<\s*T\s*>\s*\{([^}]*)\}", src)
    if not m:
        raise TranslateError(f"{rel}: enum ApiResponse<T> not found")
    if norm("#[serde(untagged)]") not in norm(m.group(1)):
        raise TranslateError(f"{rel}: ApiResponse<T> is not #[serde(untagged)]")
    if len(re.findall(r"#\[\s*serde", m.group(1))) != 1:
        raise TranslateError(f"{rel}: ApiResponse<T> has serde attributes that are not modelled")
    order = []
    for v in [x.strip() for x in m.group(2).split(",") if x.strip()]:
        if norm(v) == "Response(T)":
            order.append("WAVResponse")
        elif norm(v) == "Error(ApiError)":
            order.append("WAVError")
        else:
            raise TranslateError(f"{rel}: ApiResponse variant {v!r} is not modelled")
    if sorted(order) != ["WAVError", "WAVResponse"]:
        raise TranslateError(f"{rel}: ApiResponse<T> does not have exactly the variants Response(T), Error(ApiError)")
    return order


def fn_body(src, name, rel):
    m = re.search(r"(?:pub\s+)?async\s+fn\s+" + name + r"\s*(?:<[^>]*>)?\s*\(", src)
    if not m:
        raise TranslateError(f"{rel}: async fn {name} not found")
    i = src.index("{", m.end())
    # skip a `-> Result<..>` that may itself contain no braces
    j, depth = i + 1, 1
    while j < len(src) and depth:
        depth += {"{": 1, "}": -1}.get(src[j], 0)
        j += 1
    return src[i + 1 : j - 1]


def client_decoding(resp_of):
    """Is the reply of each endpoint decoded as ApiResponse<T> or as T?  (T must be the endpoint's reply type)"""
    out = {}
    sites = {
        "register": ("watchtower-plugin/src/net/http.rs", "register"),
        "add_appointment": ("watchtower-plugin/src/net/http.rs", "send_appointment"),
        "get_appointment": ("watchtower-plugin/src/main.rs", "get_appointment"),
        "get_subscription_info": ("watchtower-plugin/src/main.rs", "get_subscription_info"),
    }
    ep_variant = {"register": "Register", "add_appointment": "AddAppointment", "get_appointment": "GetAppointment",
                  "get_subscription_info": "GetSubscriptionInfo"}
    for ep, (rel, fn) in sites.items():
        body = norm(fn_body(code(rel), fn, rel))
        t = "common_msgs::" + resp_of[ep]
        if body.count("process_post_response(") != 1 or body.count("post_request(") != 1:
            raise TranslateError(f"{rel}: fn {fn}: expected exactly one process_post_response(post_request(..)) call")
        if f"Endpoint::{ep_variant[ep]}," not in body:
            raise TranslateError(f"{rel}: fn {fn} does not post to Endpoint::{ep_variant[ep]}")
        wrapped = (f"ApiResponse::Response::<{t}>(" in body) or (f":ApiResponse<{t}>=process_post_response(" in body)
        direct = (f"|r:{t}|" in body) or (f":{t}=process_post_response(" in body)
        if wrapped == direct:
            raise TranslateError(f"{rel}: fn {fn}: cannot tell whether the reply is decoded as ApiResponse<{t}> or as {t}")
        out[ep] = wrapped
    return out


# ------------------------------------------------------------------------------------------------
# tower router, match_status, signed request messages
# ------------------------------------------------------------------------------------------------
TONIC_CODES = {"Ok": 0, "Cancelled": 1, "Unknown": 2, "InvalidArgument": 3, "DeadlineExceeded": 4, "NotFound": 5,
               "AlreadyExists": 6, "PermissionDenied": 7, "ResourceExhausted": 8, "FailedPrecondition": 9, "Aborted": 10,
               "OutOfRange": 11, "Unimplemented": 12, "Internal": 13, "Unavailable": 14, "DataLoss": 15, "Unauthenticated": 16}
HTTP_CODES = {"BAD_REQUEST": 400, "UNAUTHORIZED": 401, "NOT_FOUND": 404, "SERVICE_UNAVAILABLE": 503, "OK": 200,
              "INTERNAL_SERVER_ERROR": 500, "FORBIDDEN": 403, "CONFLICT": 409, "TOO_MANY_REQUESTS": 429}


def endpoints():
    rel = "teos/src/api/http.rs"
    src = code(rel)
    ep_src = code("teos-common/src/net/http.rs")
    names = dict(re.findall(r'Endpoint::([A-Za-z]+)\s*=>\s*"([a-z_]+)"', ep_src))
    if 'format!("/{self}")' not in norm(ep_src):
        raise TranslateError("teos-common/src/net/http.rs: Endpoint::path is not format!(\"/{self}\")")
    caps = dict(int_consts(rel, ["REGISTER_BODY_LEN", "ADD_APPOINTMENT_BODY_LEN", "GET_APPOINTMENT_BODY_LEN", "GET_SUBSCRIPTION_INFO_BODY_LEN"]))
    router = norm(rust_block_after(src, r"fn\s+router\s*\(", rel, "fn router"))
    _pkg, _m, services = parse_proto("teos/proto/teos/v2/tower_services.proto")
    if "PublicTowerServices" not in services:
        raise TranslateError("tower_services.proto: service PublicTowerServices not found")
    rpcs = {}
    for rn, a, b in services["PublicTowerServices"]:
        pa, pb = a.rsplit(".", 1), b.rsplit(".", 1)
        if pa[0] != PACKAGE or pb[0] != PACKAGE:
            raise TranslateError(f"tower_services.proto: rpc {rn} does not use {PACKAGE} messages")
        rpcs[rn] = (pa[1], pb[1])
    out = []
    for var, handler in (("Register", "register"), ("AddAppointment", "add_appointment"), ("GetAppointment", "get_appointment"),
                         ("GetSubscriptionInfo", "get_subscription_info")):
        if var not in names:
            raise TranslateError(f"teos-common/src/net/http.rs: Endpoint::{var} has no name")
        m = re.search(r"let" + handler + r"=warp::post\(\)\.and\(warp::path\(Endpoint::" + var + r"\.to_string\(\)\)\)"
                      r"\.and\(warp::body::content_length_limit\(([A-Z_]+)\)\.and\(warp::body::json\(\)\),?\)"
                      r"\.and\(warp::addr::remote\(\)\)\.and\(with_grpc\(grpc_conn(?:\.clone\(\))?\)\)\.and_then\(" + handler + r"\);", router)
        if not m:
            raise TranslateError(f"{rel}: router: the filter of endpoint {handler} has an unexpected shape")
        if m.group(1) not in caps:
            raise TranslateError(f"{rel}: router: unknown body cap {m.group(1)}")
        hm = re.search(r"async\s+fn\s+" + handler + r"\s*\(\s*req\s*:\s*common_msgs::([A-Za-z]+)\s*,", src)
        if not hm:
            raise TranslateError(f"{rel}: handler {handler}(req: common_msgs::..) not found")
        hb = norm(fn_body(src, handler, rel))
        if f"parse_grpc_response(grpc_conn.{handler}(req).await)" not in hb:
            raise TranslateError(f"{rel}: handler {handler} does not forward req to grpc_conn.{handler}")
        if handler not in rpcs:
            raise TranslateError(f"tower_services.proto: rpc {handler} not found")
        if rpcs[handler][0] != hm.group(1):
            raise TranslateError(f"{rel}: handler {handler} takes {hm.group(1)} but the rpc takes {rpcs[handler][0]}")
        out.append((handler, names[var], hm.group(1), rpcs[handler][1], caps[m.group(1)]))
    pg = norm(rust_block_after(src, r"fn\s+parse_grpc_response\s*<", rel, "fn parse_grpc_response"))
    for frag in ("(reply::json(&inner),StatusCode::OK)", "reply::json(&ApiError::new(s.message().into(),error_code))"):
        if frag not in pg:
            raise TranslateError(f"{rel}: parse_grpc_response has an unexpected shape (missing {frag})")
    return out


def match_status():
    rel = "teos/src/api/http.rs"
    src = code(rel)
    body = rust_block_after(src, r"fn\s+match_status\s*\(", rel, "fn match_status")
    nb = norm(body)
    m = re.match(r"letmutstatus_code=StatusCode::([A-Z_]+);leterror_code=matchs\.code\(\)\{(.*)\};\(status_code,error_code\)$", nb)
    if not m:
        raise TranslateError(f"{rel}: match_status has an unexpected shape")
    default_http = m.group(1)
    errs = dict(int_consts("teos-common/src/errors.rs"))
    arms = []
    rest = m.group(2)
    arm_re = re.compile(r"(tonic::Code::([A-Za-z]+)|_)=>(?:errors::([A-Z_]+),|\{(.*?)errors::([A-Z_]+)\},?)")
    i = 0
    default = None
    while i < len(rest):
        am = arm_re.match(rest, i)
        if not am:
            raise TranslateError(f"{rel}: match_status: cannot parse arm at {rest[i:i+60]!r}")
        i = am.end()
        http = default_http
        err = am.group(3) or am.group(5)
        pre = am.group(4) or ""
        for stmt in [s for s in pre.split(";") if s]:
            sm = re.fullmatch(r"status_code=StatusCode::([A-Z_]+)", stmt)
            if sm:
                http = sm.group(1)
            elif stmt.startswith("log::"):
                continue
            else:
                raise TranslateError(f"{rel}: match_status: statement {stmt!r} is not modelled")
        if err not in errs or http not in HTTP_CODES:
            raise TranslateError(f"{rel}: match_status: unknown constant {err} / {http}")
        if am.group(1) == "_":
            default = (HTTP_CODES[http], errs[err])
        else:
            if am.group(2) not in TONIC_CODES:
                raise TranslateError(f"{rel}: match_status: unknown tonic code {am.group(2)}")
            arms.append((TONIC_CODES[am.group(2)], HTTP_CODES[http], errs[err]))
    if default is None:
        raise TranslateError(f"{rel}: match_status has no wildcard arm")
    return arms, default


def fmt_prefix(lit, rel):
    """format string 'text {..}' -> 'text ' (exactly one placeholder, at the end)"""
    m = re.fullmatch(r"([^{}]*)\{([a-z_]*)\}", lit)
    if not m:
        raise TranslateError(f"{rel}: format string {lit!r} is not `<literal>{{locator}}`")
    return m.group(1)


def signed_messages():
    out = {}
    rel = "watchtower-plugin/src/main.rs"
    src = code(rel)
    b = fn_body(src, "get_appointment", rel)
    m = re.search(r'cryptography::sign\(\s*format!\(\s*"([^"\\]*)"\s*,\s*params\.locator\s*,?\s*\)\s*\.as_bytes\(\)\s*,\s*&user_sk\s*,?\s*\)', b)
    if not m:
        raise TranslateError(f"{rel}: get_appointment: cryptography::sign(format!(\"..{{}}\", params.locator).as_bytes(), &user_sk) not found")
    out["GET_APPOINTMENT_PREFIX_CLIENT"] = fmt_prefix(m.group(1), rel)
    b = fn_body(src, "get_subscription_info", rel)
    m = re.search(r'cryptography::sign\(\s*"([^"\\]*)"\.as_bytes\(\)\s*,\s*&user_sk\s*\)', b)
    if not m:
        raise TranslateError(f"{rel}: get_subscription_info: cryptography::sign(\"..\".as_bytes(), &user_sk) not found")
    out["GET_SUBSCRIPTION_INFO_MSG_CLIENT"] = m.group(1)
    if not re.search(r"cryptography::sign\(\s*&appointment\.to_vec\(\)\s*,", src):
        raise TranslateError(f"{rel}: the appointment signature is not cryptography::sign(&appointment.to_vec(), ..)")
    rel = "teos/src/watcher.rs"
    src = code(rel)

    def sync_fn(name):
        m = re.search(r"pub\(crate\)\s+fn\s+" + name + r"\s*\(", src)
        if not m:
            raise TranslateError(f"{rel}: fn {name} not found")
        i = src.index("{", src.index("->", m.end()))
        # the return type may contain braces-free generics only
        j, depth = i + 1, 1
        while j < len(src) and depth:
            depth += {"{": 1, "}": -1}.get(src[j], 0)
            j += 1
        return src[i + 1 : j - 1]

    b = sync_fn("get_appointment")
    m = re.search(r'let\s+message\s*=\s*format!\(\s*"([^"\\]*)"\s*\)\s*;', b)
    if not m or "authenticate_user(message.as_bytes(),user_signature)" not in norm(b):
        raise TranslateError(f"{rel}: get_appointment: `let message = format!(\"..{{locator}}\")` + authenticate_user(message.as_bytes(), user_signature) not found")
    if not m.group(1).endswith("{locator}"):
        raise TranslateError(f"{rel}: get_appointment: message format {m.group(1)!r} does not end in {{locator}}")
    out["GET_APPOINTMENT_PREFIX_TOWER"] = fmt_prefix(m.group(1), rel)
    b = sync_fn("get_subscription_info")
    m = re.search(r'let\s+message\s*=\s*"([^"\\]*)"\.to_string\(\)\s*;', b)
    if not m or "authenticate_user(message.as_bytes(),signature)" not in norm(b):
        raise TranslateError(f"{rel}: get_subscription_info: `let message = \"..\".to_string()` + authenticate_user(message.as_bytes(), signature) not found")
    out["GET_SUBSCRIPTION_INFO_MSG_TOWER"] = m.group(1)
    b = sync_fn("add_appointment")
    if "authenticate_user(&appointment.to_vec(),&user_signature)" not in norm(b):
        raise TranslateError(f"{rel}: add_appointment does not authenticate against appointment.to_vec()")
    ap = code("teos-common/src/appointment.rs")
    disp = norm(rust_block_after(ap, r"impl\s+fmt::Display\s+for\s+Locator\s*\{", "appointment.rs", "impl Display for Locator"))
    if 'write!(f,"{}",hex::encode(self.to_vec()))' not in disp:
        raise TranslateError("teos-common/src/appointment.rs: Locator's Display is not hex::encode(self.to_vec())")
    return out


# ------------------------------------------------------------------------------------------------
@translate.register("WireSpec.v")
def gen():
    STR_CONSTS.clear()
    head = ["(* GENERATED by tools/translate_wire.py from /repo — do not edit. *)",
            "From TeosModel Require Import Base Wire.",
            "From Coq Require Import String.",
            "Local Open Scope string_scope.",
            ""]
    L = []
    check_ser_rs()
    msgs, enum_types = build_messages()
    L.append("(* teos-common/build.rs attributes applied to teos-common/proto (prost-build path matching) *)")
    for name, term, rows in msgs:
        for a, b in rows:
            L.append(f"(*   {name}.{a}: {b} *)")
        L.append(f"Definition W_{name} : w_msg := {term}.")
    L.append("Definition W_MESSAGES : list (w_str * w_msg) := [" + "; ".join(f"({coq_str(n)}, W_{n})" for n, _t, _r in msgs) + "].")
    L.append("")
    L.append("(* the error object: teos/src/api/http.rs (tower, serialises) and watchtower-plugin/src/net/http.rs (client, parses) *)")
    L.append(f"Definition W_TowerApiError : w_msg := {api_error_spec('teos/src/api/http.rs')}.")
    L.append(f"Definition W_ClientApiError : w_msg := {api_error_spec('watchtower-plugin/src/net/http.rs')}.")
    L.append("(* #[serde(untagged)] enum ApiResponse<T>: variants in the order serde tries them *)")
    L.append("Definition W_API_RESPONSE_ORDER : list w_api_variant := [" + "; ".join(api_response_order()) + "].")
    L.append("")
    variants, from_i32, default, from_str, display, proto = status_tables(enum_types)
    L.append("(* teos-common/src/appointment.rs: AppointmentStatus *)")
    L.append("Definition W_STATUS : w_status_table := {|")
    L.append("  w_st_variants := [" + "; ".join(f"({coq_str(v)}, {translate.zlit(n)})" for v, n in variants) + "];")
    L.append("  w_st_from_i32 := [" + "; ".join(f"({translate.zlit(n)}, {coq_str(v)})" for n, v in from_i32) + "];")
    L.append(f"  w_st_from_i32_default := {coq_str(default)};")
    L.append("  w_st_from_str := [" + "; ".join(f"({coq_str(s)}, {coq_str(v)})" for s, v in from_str) + "];")
    L.append("  w_st_display := [" + "; ".join(f"({coq_str(v)}, {coq_str(s)})" for v, s in display) + "] |}.")
    L.append("(* the proto enum GetAppointmentResponse.AppointmentStatus (names in CamelCase, as prost generates them) *)")
    L.append("Definition W_STATUS_PROTO : list (w_str * Z) := [" + "; ".join(f"({coq_str(v)}, {translate.zlit(n)})" for v, n in proto) + "].")
    L.append("")
    L.append("(* the byte strings that get signed: field order and widths of the three to_vec functions *)")
    for cname, what, items in layouts():
        L.append(f"(* {what} *)")
        L.append(f"Definition W_{cname} : w_layout := [" + "; ".join(f"({coq_str(f)}, {it})" for f, it in items) + "].")
    L.append("")
    sm = signed_messages()
    L.append("(* the messages signed by the client (watchtower-plugin/src/main.rs) and checked by the tower (teos/src/watcher.rs) *)")
    for k in ("GET_APPOINTMENT_PREFIX_CLIENT", "GET_APPOINTMENT_PREFIX_TOWER", "GET_SUBSCRIPTION_INFO_MSG_CLIENT", "GET_SUBSCRIPTION_INFO_MSG_TOWER"):
        L.append(f"Definition W_{k} : w_str := {coq_str(sm[k])}.")
    L.append("")
    eps = endpoints()
    wrapped = client_decoding({h: resp for h, _p, _rq, resp, _c in eps})
    L.append("(* router + handlers of teos/src/api/http.rs, PublicTowerServices, and how the client decodes each reply *)")
    for handler, path, req, resp, cap in eps:
        L.append(f"Definition W_EP_{handler} : w_endpoint_spec := {{| w_ep_path := {coq_str('/' + path)}; w_ep_req := W_{req}; w_ep_resp := W_{resp}; "
                 f"w_ep_cap := {translate.zlit(cap)}; w_ep_client_wrapped := {'true' if wrapped[handler] else 'false'} |}}.")
    L.append("Definition W_ENDPOINTS : list w_endpoint_spec := [" + "; ".join(f"W_EP_{h}" for h, *_ in eps) + "].")
    L.append("")
    arms, dflt = match_status()
    L.append("(* match_status: tonic code -> (HTTP status, error_code) *)")
    L.append("Definition W_MATCH_STATUS : list (Z * (Z * Z)) := [" + "; ".join(f"({translate.zlit(c)}, ({translate.zlit(h)}, {translate.zlit(e)}))" for c, h, e in arms) + "].")
    L.append(f"Definition W_MATCH_STATUS_DEFAULT : Z * Z := ({translate.zlit(dflt[0])}, {translate.zlit(dflt[1])}).")
    L.append("")
    head.append("(* every name and literal used below, as bytes *)")
    for lit, name in STR_CONSTS.items():
        head.append(f'Definition {name} : w_str := Eval vm_compute in w_s2b "{lit}".')
    head.append("")
    return "\n".join(head + L) + "\n"
