#!/bin/bash
# seed_final.sh — regression run of the whole seeded corpus on the current trees: every seeded/<id>/patch.diff against the
# check of the property it breaks (meta.json "property"); one line per change in seeded/FINAL.tsv.
cd /verif
: > seeded/FINAL.tsv
for d in seeded/*/; do
  n=$(basename $d); [ -f $d/patch.diff ] || continue
  p=$(python3 -c "import json;print(json.load(open('$d/meta.json')).get('property','?'))")
  if python3 -c "import json,sys;sys.exit(0 if json.load(open('$d/meta.json')).get('obsolete') else 1)"; then echo -e "$n\t$p\tobsolete" >> seeded/FINAL.tsv; continue; fi
  out=$(tools/seedtest.sh $d/patch.diff $p 2>&1)
  rc=$(echo "$out" | sed -n 's/^== .* rc=\([0-9]*\).*/\1/p' | head -1)
  v=$(echo "$out" | grep -m1 "^VIOLATION" | sed 's/replay=[^ ]*//' )
  echo -e "$n\t$p\trc=$rc\t$v" >> seeded/FINAL.tsv
done
