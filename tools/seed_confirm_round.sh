#!/bin/bash
# seed_confirm_round.sh <id>... — confirms seeded/<id> one after another (tools/confirm_seed.sh --suite, scratch worktree
# /work/seed/confirm); one line per change in seeded/CONFIRM.tsv.  Independent of the seedtest scratch copies.
cd /verif
for id in "$@"; do
  while [ ! -f seeded/$id/patch.diff ]; do sleep 10; done
  conf=$(tools/confirm_seed.sh seeded/$id --suite 2>&1 | tr '\n' ';')
  echo -e "$id\t$conf" >> seeded/CONFIRM.tsv
done
