#!/bin/bash
# seed_round.sh <outdir> — queue runner for freshly produced seeded changes: every <outdir>/<id>/ that holds a .ready
# marker (and patch.diff demo.diff demo_cmd.txt meta.json) is copied into seeded/<id>/, given to the check of its property (tools/seedtest.sh).  One line per change is
# appended to seeded/ROUND.tsv.  Strictly sequential (the scratch copies under /work/seed are shared); stops when
# <outdir>/.stop exists and nothing is left to do.
cd /verif
OUT=$1
while true; do
  if pgrep -f "tools/seed_final.sh" > /dev/null; then sleep 20; continue; fi
  did=0
  for src in $OUT/*/; do
    id=$(basename $src); [ -f $src/.ready ] || continue
    grep -q "^$id	" seeded/ROUND.tsv 2>/dev/null && continue
    did=1
    mkdir -p seeded/$id; cp $src/patch.diff $src/demo.diff $src/demo_cmd.txt $src/meta.json seeded/$id/ 2>/dev/null
    p=$(python3 -c "import json;print(json.load(open('seeded/$id/meta.json')).get('property','?'))")
    out=$(tools/seedtest.sh seeded/$id/patch.diff $p 2>&1)
    rc=$(echo "$out" | sed -n 's/^== .* rc=\([0-9]*\).*/\1/p' | head -1)
    v=$(echo "$out" | grep -m1 "^VIOLATION" | cut -c1-200)
    echo -e "$id\t$p\trc=$rc\t$v" >> seeded/ROUND.tsv
  done
  [ $did = 0 ] && [ -f $OUT/.stop ] && break
  [ $did = 0 ] && sleep 20
done
