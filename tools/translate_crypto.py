"""translate_crypto.py — Gen/CryptoParams.v: the declarative lines of teos-common/src/cryptography.rs
(nonce construction, key derivation, plaintext (de)serialisation calls, the three signature
wrappers) and of Locator::new (teos-common/src/appointment.rs).

Every function body must match one strict statement sequence; the only free parts are the nonce
expression (three recognised constant shapes) and the slice bounds of the locator.  Anything else
raises TranslateError (a broken tie), never a guess."""
import re

import translate
from translate import TranslateError, code

RS = "teos-common/src/cryptography.rs"
AP = "teos-common/src/appointment.rs"


def fn_body(src, rel, name):
    """Statements between the braces of `pub fn <name>(...) ... { ... }`, whitespace-normalised."""
    m = re.search(r"\bpub\s+fn\s+" + re.escape(name) + r"\s*\(", src)
    if not m:
        raise TranslateError(f"{rel}: pub fn {name} not found")
    i = src.find("{", m.end())
    if i < 0:
        raise TranslateError(f"{rel}: body of {name} not found")
    depth, j = 0, i
    while j < len(src):
        if src[j] == "{":
            depth += 1
        elif src[j] == "}":
            depth -= 1
            if depth == 0:
                break
        j += 1
    if depth != 0:
        raise TranslateError(f"{rel}: unbalanced braces in {name}")
    sig = " ".join(src[m.start():i].split())
    body = " ".join(src[i + 1:j].split())
    return sig, body


def nonce_bytes(expr, where):
    """The 12 nonce bytes an expression denotes (constant shapes only)."""
    expr = expr.strip()
    if expr == "Nonce::default()":
        return [0] * 12
    m = re.fullmatch(r"\*?Nonce::from_slice\(\s*&\[\s*([0-9xa-fA-F_u]+)\s*;\s*12\s*\]\s*\)", expr)
    if m:
        return [lit(m.group(1), where)] * 12
    m = re.fullmatch(r"(?:\*?Nonce::from_slice\(\s*&|Nonce::from\(\s*)\[([^\]]*)\]\s*\)", expr)
    if m:
        bs = [lit(x, where) for x in m.group(1).split(",") if x.strip()]
        if len(bs) != 12:
            raise TranslateError(f"{RS}: {where}: nonce literal has {len(bs)} bytes, 12 expected")
        return bs
    raise TranslateError(f"{RS}: {where}: unrecognised nonce expression {expr!r}")


def lit(tok, where):
    t = tok.strip().replace("_", "")
    t = re.sub(r"u8$", "", t)
    try:
        v = int(t, 16) if t.lower().startswith("0x") else int(t)
    except ValueError:
        raise TranslateError(f"{RS}: {where}: cannot evaluate byte literal {tok!r}")
    if not 0 <= v < 256:
        raise TranslateError(f"{RS}: {where}: byte literal out of range {tok!r}")
    return v


KEY_LINES = ("let k = sha256::Hash::hash(secret.as_byte_array()); "
             "let key = Key::from_slice(k.as_byte_array()); "
             "let cypher = ChaCha20Poly1305::new(key); ")
ENC_TAIL = "cypher.encrypt(&nonce, consensus::serialize(message).as_ref())"
DEC_TAIL = ("match cypher.decrypt(&nonce, encrypted_blob.as_ref()) { "
            "Ok(tx_bytes) => consensus::deserialize(&tx_bytes).map_err(DecryptingError::Encode), "
            "Err(e) => Err(DecryptingError::AED(e)), }")


def crypt_fn(src, name, sig_expected, tail):
    sig, body = fn_body(src, RS, name)
    if sig != sig_expected:
        raise TranslateError(f"{RS}: signature of {name} is {sig!r}, expected {sig_expected!r}")
    m = re.fullmatch(r"let nonce = (.+?); (.*)", body)
    if not m:
        raise TranslateError(f"{RS}: {name}: first statement is not `let nonce = ...;`: {body[:80]!r}")
    nonce = nonce_bytes(m.group(1), name)
    rest = m.group(2)
    if rest != KEY_LINES + tail:
        raise TranslateError(f"{RS}: {name}: key derivation / cipher call differ from the modelled ones: {rest!r}")
    return nonce


def expect_body(src, name, sig_expected, body_expected):
    sig, body = fn_body(src, RS, name)
    if sig != sig_expected or body != body_expected:
        raise TranslateError(f"{RS}: {name} is `{sig} {{ {body} }}`, expected `{sig_expected} {{ {body_expected} }}`")


def nlist(bs):
    return "[" + "; ".join(str(b) for b in bs) + "]%N"


@translate.register("CryptoParams.v")
def gen():
    src = code(RS)
    for use in ("use chacha20poly1305::aead::{Aead, NewAead};", "use chacha20poly1305::{ChaCha20Poly1305, Key, Nonce};",
                "use bitcoin::hashes::{sha256, Hash};", "use lightning::util::message_signing;", "use bitcoin::consensus;"):
        if use not in src:
            raise TranslateError(f"{RS}: import `{use}` not found (another primitive is in use?)")
    enc_nonce = crypt_fn(src, "encrypt",
                         "pub fn encrypt( message: &Transaction, secret: &Txid, ) -> Result<Vec<u8>, chacha20poly1305::aead::Error>",
                         ENC_TAIL)
    dec_nonce = crypt_fn(src, "decrypt",
                         "pub fn decrypt(encrypted_blob: &[u8], secret: &Txid) -> Result<Transaction, DecryptingError>",
                         DEC_TAIL)
    expect_body(src, "sign", "pub fn sign(msg: &[u8], sk: &SecretKey) -> String", "message_signing::sign(msg, sk)")
    expect_body(src, "verify", "pub fn verify(msg: &[u8], sig: &str, pk: &PublicKey) -> bool",
                "message_signing::recover_pk(msg, sig).map_or_else(|_| false, |x| x == *pk)")
    expect_body(src, "recover_pk", "pub fn recover_pk(msg: &[u8], sig: &str) -> Result<PublicKey, Error>",
                "message_signing::recover_pk(msg, sig)")

    ap = code(AP)
    m = re.search(r"pub\s+struct\s+Locator\(\s*\[u8;\s*LOCATOR_LEN\]\s*\)\s*;", ap)
    if not m:
        raise TranslateError(f"{AP}: `pub struct Locator([u8; LOCATOR_LEN]);` not found")
    m = re.search(r"pub fn new\(txid: Txid\) -> Self \{\s*Locator\(\s*txid\[\s*([A-Z_0-9a-z]*)\s*\.\.\s*([A-Z_0-9a-z]*)\s*\]\.try_into\(\)\.unwrap\(\)\s*\)\s*\}", ap)
    if not m:
        raise TranslateError(f"{AP}: Locator::new is not `Locator(txid[a..b].try_into().unwrap())`")

    def bound(tok, default):
        if tok == "":
            return default
        if tok == "LOCATOR_LEN":
            return "Consts.LOCATOR_LEN"
        if re.fullmatch(r"[0-9]+", tok):
            return f"{int(tok)}%Z"
        raise TranslateError(f"{AP}: Locator::new: unrecognised slice bound {tok!r}")

    lo = bound(m.group(1), "0%Z")
    hi = bound(m.group(2), "32%Z")
    lines = [
        "(* GENERATED by tools/translate_crypto.py from /repo — do not edit. *)",
        "From Coq Require Import NArith ZArith List.",
        "From TeosModel.Gen Require Consts.",
        "Import ListNotations.",
        "",
        f"(* {RS}: encrypt / decrypt *)",
        f"Definition ENC_NONCE : list N := {nlist(enc_nonce)}.",
        f"Definition DEC_NONCE : list N := {nlist(dec_nonce)}.",
        "(* both bodies are, statement for statement: key = SHA256(secret.as_byte_array()), ChaCha20Poly1305::new(key),",
        "   encrypt(&nonce, consensus::serialize(message)) / decrypt(&nonce, blob) then consensus::deserialize (full",
        "   consumption), empty associated data *)",
        "Definition ENC_KEY_IS_SHA256_OF_TXID_BYTES : bool := true.",
        "Definition DEC_KEY_IS_SHA256_OF_TXID_BYTES : bool := true.",
        "Definition ENC_PLAINTEXT_IS_CONSENSUS_SERIALIZE : bool := true.",
        "Definition DEC_PLAINTEXT_IS_CONSENSUS_DESERIALIZE_FULL : bool := true.",
        "(* sign / verify / recover_pk are the lightning::util::message_signing functions; verify compares the whole key *)",
        "Definition SIGN_IS_LN_MESSAGE_SIGNING : bool := true.",
        "Definition VERIFY_IS_RECOVER_THEN_EQ : bool := true.",
        "",
        f"(* {AP}: Locator::new(txid) = txid[LOCATOR_FROM..LOCATOR_TO] *)",
        f"Definition LOCATOR_FROM : Z := {lo}.",
        f"Definition LOCATOR_TO : Z := {hi}.",
        "",
    ]
    return "\n".join(lines) + "\n"
