"""translate_config.py — Gen/Config.v: the declarative content of teos/src/config.rs,
teos/src/cli_config.rs and teos/src/conf_template.toml as Coq *data* (field descriptors, option
descriptors, patch statements, the verify program and its tables).  The hand-written interpreter
in coq/theories/Config.v executes this data; the theorems of Properties/C20.v are stated over it.

Every fragment has ONE strict expected shape.  Anything else raises TranslateError (a broken tie).
When that happens the committed snapshot of the pinned tree (tools/translate_config_ref.v) is
installed as Gen/Config.v so that the model still builds (the OCaml driver is shared by all
properties) and the search for a failing input can run; the error is raised all the same, so the
check cannot pass.
"""
import os
import re

import translate
from translate import TranslateError

CONFIG_RS = "teos/src/config.rs"
CLI_CONFIG_RS = "teos/src/cli_config.rs"
TEMPLATE = "teos/src/conf_template.toml"
MAIN_RS = "teos/src/main.rs"
CLI_RS = "teos/src/cli.rs"

INT_TYPES = {"u8": "TU8", "u16": "TU16", "u32": "TU32", "u64": "TU64"}
TYPES = dict(INT_TYPES, String="TStr", bool="TBool")
INT_MAX = {"TU8": 2**8, "TU16": 2**16, "TU32": 2**32, "TU64": 2**64}
AUTH_VARIANTS = ["UserPass", "CookieFile", "Multiple", "Invalid"]
IDENT = r"[a-z_][a-z0-9_]*"


# ------------------------------------------------------------------ lexical helpers
def skip_string(src, i):
    """src[i] == '"': index just after the closing quote."""
    j = i + 1
    while j < len(src) and src[j] != '"':
        j += 2 if src[j] == "\\" else 1
    if j >= len(src):
        raise TranslateError("unterminated string literal")
    return j + 1


def matching(src, i, open_c, close_c):
    """src[i] == open_c: index of the matching close_c (string literals skipped)."""
    assert src[i] == open_c
    depth = 0
    j = i
    while j < len(src):
        c = src[j]
        if c == '"':
            j = skip_string(src, j)
            continue
        if c == open_c:
            depth += 1
        elif c == close_c:
            depth -= 1
            if depth == 0:
                return j
        j += 1
    raise TranslateError(f"unbalanced {open_c}{close_c}")


def block(src, header_re, what):
    """Body (between the braces) of the unique item whose header matches header_re; header_re must
    end just before the opening brace.  Returns (body, start index of the header)."""
    ms = list(re.finditer(header_re, src))
    if len(ms) != 1:
        raise TranslateError(f"{what}: expected exactly one match of /{header_re}/, found {len(ms)}")
    m = ms[0]
    k = m.end()
    while k < len(src) and src[k].isspace():
        k += 1
    if k >= len(src) or src[k] != "{":
        raise TranslateError(f"{what}: no opening brace after the header")
    e = matching(src, k, "{", "}")
    return src[k + 1 : e], m.start()


def norm(s):
    """Collapse white space outside string literals to single blanks; drop blanks around punctuation."""
    out = []
    i = 0
    while i < len(s):
        c = s[i]
        if c == '"':
            j = skip_string(s, i)
            out.append(s[i:j])
            i = j
        elif c.isspace():
            out.append(" ")
            while i < len(s) and s[i].isspace():
                i += 1
        else:
            out.append(c)
            i += 1
    t = "".join(out)
    # remove blanks next to punctuation (outside strings)
    res = []
    i = 0
    punct = set("(){}[],;:=<>|&!.*")
    while i < len(t):
        c = t[i]
        if c == '"':
            j = skip_string(t, i)
            res.append(t[i:j])
            i = j
            continue
        if c == " ":
            prev = res[-1][-1] if res else ""
            nxt = t[i + 1] if i + 1 < len(t) else ""
            if prev in punct or nxt in punct or prev == "" or nxt == "":
                i += 1
                continue
        res.append(c)
        i += 1
    return "".join(res).strip()


def attrs_before(src, pos, what):
    """The run of `#[...]` attributes that immediately precedes position pos (nothing else allowed in
    between but white space).  Returns their normalised inner texts, in order."""
    attrs = []
    end = pos
    while True:
        k = end
        while k > 0 and src[k - 1].isspace():
            k -= 1
        if k == 0 or src[k - 1] != "]":
            break
        # find the '#[' that opens this attribute
        depth = 0
        j = k - 1
        while j >= 0:
            if src[j] == "]":
                depth += 1
            elif src[j] == "[":
                depth -= 1
                if depth == 0:
                    break
            j -= 1
        if j < 1 or src[j - 1] != "#":
            raise TranslateError(f"{what}: cannot delimit the attribute ending at offset {k}")
        attrs.insert(0, norm(src[j + 1 : k - 1]))
        end = j - 1
    return attrs


def coq_string(s):
    if not all(32 <= ord(c) < 127 for c in s):
        raise TranslateError(f"string literal with a non printable-ASCII character: {s!r}")
    return '(T "' + s.replace('"', '""') + '")'


def rust_str_lit(tok, what):
    m = re.fullmatch(r'"((?:[^"\\]|\\.)*)"', tok)
    if not m:
        raise TranslateError(f"{what}: expected a string literal, found {tok!r}")
    body = m.group(1)
    if "\\" in body:
        raise TranslateError(f"{what}: escape sequences in string literals are not supported: {tok!r}")
    return body


def split_top(s, sep=","):
    """Split at top-level separators (not inside (), [], {}, <> or strings); drops a trailing empty item."""
    items = []
    depth = 0
    cur = []
    i = 0
    while i < len(s):
        c = s[i]
        if c == '"':
            j = skip_string(s, i)
            cur.append(s[i:j])
            i = j
            continue
        if c in "([{":
            depth += 1
        elif c in ")]}":
            depth -= 1
        if c == sep and depth == 0:
            items.append("".join(cur))
            cur = []
        else:
            cur.append(c)
        i += 1
    last = "".join(cur)
    if last.strip():
        items.append(last)
    return items


# ------------------------------------------------------------------ struct Opt
def parse_opt(src, rel):
    body, start = block(src, r"\bpub struct Opt\b", f"{rel}: struct Opt")
    attrs = attrs_before(src, start, f"{rel}: struct Opt")
    derive = [a for a in attrs if a.startswith("derive(")]
    if len(derive) != 1 or "StructOpt" not in re.findall(r"[A-Za-z]+", derive[0]):
        raise TranslateError(f"{rel}: struct Opt must derive StructOpt (attributes: {attrs})")
    rename = None
    for a in attrs:
        if a.startswith("derive("):
            continue
        if not a.startswith("structopt("):
            raise TranslateError(f"{rel}: unexpected attribute on struct Opt: #[{a}]")
        for item in split_top(a[len("structopt(") : -1]):
            m = re.fullmatch(r"([a-z_]+)=(.*)", item)
            if not m:
                raise TranslateError(f"{rel}: unexpected structopt item on struct Opt: {item!r}")
            if m.group(1) == "rename_all":
                rename = rust_str_lit(m.group(2), f"{rel}: rename_all")
            elif m.group(1) not in ("version", "about", "name"):
                raise TranslateError(f"{rel}: unexpected structopt item on struct Opt: {item!r}")
    if rename != "lowercase":
        raise TranslateError(f'{rel}: struct Opt: expected rename_all = "lowercase", found {rename!r}')
    opts = []
    for item in split_top(body):
        t = norm(item)
        m = re.fullmatch(r"#\[structopt\((.*)\)\]pub (" + IDENT + r"):(.+)", t)
        if not m:
            raise TranslateError(f"{rel}: struct Opt: unexpected field shape: {t!r}")
        sargs, name, ty = m.group(1), m.group(2), m.group(3)
        mo = re.fullmatch(r"Option<([A-Za-z0-9]+)>", ty)
        if sargs == "long" and mo and mo.group(1) in TYPES and mo.group(1) != "bool":
            kind = f"OValue {TYPES[mo.group(1)]}"
        elif sargs == "long" and ty == "bool":
            kind = "OFlag"
        elif re.fullmatch(r'long,default_value="[^"\\]*"', sargs) and ty == "String":
            kind = "OOther"  # always has a value; no Config counterpart is patched from it
        elif sargs == "subcommand" and re.fullmatch(r"[A-Z][A-Za-z]*", ty):
            kind = "OOther"
        else:
            raise TranslateError(f"{rel}: struct Opt: field {name}: unsupported #[structopt({sargs})] {ty}")
        opts.append((name, kind))
    names = [n for n, _ in opts]
    if len(set(names)) != len(names) or not opts:
        raise TranslateError(f"{rel}: struct Opt: duplicate or no fields")
    return opts


def opt_doc_defaults(rel):
    """`[default: X]` notes of the help texts (doc comments) of struct Opt: informative only."""
    raw = translate.strip_tests(translate.read(rel))
    i = raw.find("pub struct Opt")
    if i < 0:
        return []
    j = matching(raw, raw.find("{", i), "{", "}")
    res = []
    doc = []
    for line in raw[i:j].splitlines():
        s = line.strip()
        if s.startswith("///"):
            doc.append(s[3:].strip())
        else:
            m = re.match(r"pub (" + IDENT + r")\s*:", s)
            if m:
                d = re.search(r"\[default: ([^\]]*)\]", " ".join(doc))
                if d:
                    res.append((m.group(1), d.group(1).strip()))
                doc = []
    return res


# ------------------------------------------------------------------ struct Config and its Default
def parse_config_struct(src, rel):
    body, start = block(src, r"\bpub struct Config\b", f"{rel}: struct Config")
    attrs = attrs_before(src, start, f"{rel}: struct Config")
    serde_default = False
    for a in attrs:
        if a.startswith("derive("):
            if "Deserialize" not in re.findall(r"[A-Za-z]+", a):
                raise TranslateError(f"{rel}: struct Config must derive Deserialize")
        elif a == "serde(default)":
            serde_default = True
        else:
            # deny_unknown_fields, rename_all, ... change what a file means: not modelled
            raise TranslateError(f"{rel}: unexpected attribute on struct Config: #[{a}]")
    if not any(a.startswith("derive(") for a in attrs):
        raise TranslateError(f"{rel}: struct Config: no derive attribute")
    fields = []
    for item in split_top(body):
        t = norm(item)
        m = re.fullmatch(r"((?:#\[[^\]]*\])*)pub (" + IDENT + r"):([A-Za-z0-9]+)", t)
        if not m:
            raise TranslateError(f"{rel}: struct Config: unexpected field shape: {t!r}")
        fattrs, name, ty = m.group(1), m.group(2), m.group(3)
        skip = False
        for a in re.findall(r"#\[([^\]]*)\]", fattrs):
            if a in ("serde(skip)", "serde(skip_deserializing)"):
                skip = True
            else:
                raise TranslateError(f"{rel}: struct Config: field {name}: unsupported attribute #[{a}]")
        if ty not in TYPES:
            raise TranslateError(f"{rel}: struct Config: field {name}: unsupported type {ty}")
        fields.append((name, TYPES[ty], skip))
    names = [f[0] for f in fields]
    if len(set(names)) != len(names) or not fields:
        raise TranslateError(f"{rel}: struct Config: duplicate or no fields")
    return fields, serde_default


def parse_value_expr(e, cty, what):
    """A Default::default() initialiser -> Coq cval text."""
    if cty == "TStr":
        if e == "String::new()":
            return 'VStr []'
        m = re.fullmatch(r'("[^"\\]*")\.(?:into|to_owned|to_string)\(\)', e) or re.fullmatch(r'String::from\(("[^"\\]*")\)', e)
        if m:
            return "VStr " + (coq_string(rust_str_lit(m.group(1), what)) if rust_str_lit(m.group(1), what) else "[]")
    elif cty == "TBool":
        if e in ("true", "false"):
            return "VBool " + e
    else:
        m = re.fullmatch(r"([0-9][0-9_]*)(?:_?" + cty[1:].lower() + r")?", e)
        if m:
            v = int(m.group(1).replace("_", ""))
            if v >= INT_MAX[cty]:
                raise TranslateError(f"{what}: literal {v} out of range of {cty}")
            return f"VNum {v}"
    raise TranslateError(f"{what}: initialiser I cannot evaluate: {e!r}")


def parse_default(src, rel, fields):
    body, _ = block(src, r"\bimpl Default for Config\b", f"{rel}: impl Default for Config")
    t = norm(body)
    m = re.fullmatch(r"fn default\(\)->Self\{Self\{(.*)\}\}", t)
    if not m:
        raise TranslateError(f"{rel}: Config::default(): expected `fn default() -> Self {{ Self {{ .. }} }}`")
    tys = {n: ty for n, ty, _ in fields}
    vals = {}
    for item in split_top(m.group(1)):
        mm = re.fullmatch(r"(" + IDENT + r"):(.+)", item)
        if not mm or mm.group(1) not in tys:
            raise TranslateError(f"{rel}: Config::default(): unexpected initialiser {item!r}")
        if mm.group(1) in vals:
            raise TranslateError(f"{rel}: Config::default(): {mm.group(1)} initialised twice")
        vals[mm.group(1)] = parse_value_expr(mm.group(2), tys[mm.group(1)], f"{rel}: Config::default().{mm.group(1)}")
    for n in tys:
        if n not in vals:
            raise TranslateError(f"{rel}: Config::default(): field {n} not initialised")
    return vals


# ------------------------------------------------------------------ patch_with_options
def parse_patch(src, rel, fields, opts):
    body, _ = block(src, r"\bpub fn patch_with_options\(\s*&mut self\s*,\s*options\s*:\s*Opt\s*\)", f"{rel}: patch_with_options")
    t = norm(body)
    stmts = []
    pos = 0
    pats = [
        (re.compile(r"if options\.(" + IDENT + r")\.is_some\(\)\{self\.(" + IDENT + r")=options\.(" + IDENT + r")\.unwrap\(\);\}"),
         lambda m: ("PIfSome", m.group(2), m.group(1)) if m.group(1) == m.group(3) else None),
        (re.compile(r"if let Some\((" + IDENT + r")\)=options\.(" + IDENT + r")\{self\.(" + IDENT + r")=(" + IDENT + r");\}"),
         lambda m: ("PIfSome", m.group(3), m.group(2)) if m.group(1) == m.group(4) else None),
        (re.compile(r"self\.(" + IDENT + r")\|=options\.(" + IDENT + r");"), lambda m: ("POrAssign", m.group(1), m.group(2))),
        (re.compile(r"self\.(" + IDENT + r")=options\.(" + IDENT + r");"), lambda m: ("PAssign", m.group(1), m.group(2))),
    ]
    fnames = {f[0] for f in fields}
    okinds = dict(opts)
    while pos < len(t):
        for rx, mk in pats:
            m = rx.match(t, pos)
            if m:
                s = mk(m)
                if s is None:
                    raise TranslateError(f"{rel}: patch_with_options: inconsistent statement {m.group(0)!r}")
                kind, c, o = s
                if c not in fnames:
                    raise TranslateError(f"{rel}: patch_with_options: {m.group(0)!r} writes a field Config does not have")
                if o not in okinds:
                    raise TranslateError(f"{rel}: patch_with_options: {m.group(0)!r} reads an option Opt does not have")
                if kind == "PIfSome" and not okinds[o].startswith("OValue"):
                    raise TranslateError(f"{rel}: patch_with_options: {m.group(0)!r}: option {o} is not an Option<T>")
                if kind != "PIfSome" and okinds[o] != "OFlag":
                    raise TranslateError(f"{rel}: patch_with_options: {m.group(0)!r}: option {o} is not a bool flag")
                stmts.append(s)
                pos = m.end()
                break
        else:
            raise TranslateError(f"{rel}: patch_with_options: statement I do not recognise at: {t[pos:pos + 120]!r}")
    return stmts


# ------------------------------------------------------------------ get_auth_method, verify, from_file
def parse_auth(src, rel):
    body, _ = block(src, r"\bpub enum AuthMethod\b", f"{rel}: enum AuthMethod")
    variants = [norm(x) for x in split_top(body)]
    if variants != AUTH_VARIANTS:
        raise TranslateError(f"{rel}: enum AuthMethod: expected variants {AUTH_VARIANTS}, found {variants}")
    body, _ = block(src, r"\bpub fn get_auth_method\(\s*&self\s*\)\s*->\s*AuthMethod", f"{rel}: get_auth_method")
    t = norm(body)
    m = re.fullmatch(r"match\((.*?)\)\{(.*)\}", t)
    if not m:
        raise TranslateError(f"{rel}: get_auth_method: expected a single `match (a, b, c) {{ .. }}`")
    scrut = []
    for s in split_top(m.group(1)):
        ms = re.fullmatch(r"self\.(" + IDENT + r")\.is_empty\(\)", s)
        if not ms:
            raise TranslateError(f"{rel}: get_auth_method: scrutinee component {s!r} is not self.<field>.is_empty()")
        scrut.append(ms.group(1))
    if len(scrut) != 3:
        raise TranslateError(f"{rel}: get_auth_method: expected three scrutinee components, found {len(scrut)}")
    rows = []
    for arm in split_top(m.group(2)):
        ma = re.fullmatch(r"(.+?)=>AuthMethod::([A-Za-z]+)", arm)
        if not ma or ma.group(2) not in AUTH_VARIANTS:
            raise TranslateError(f"{rel}: get_auth_method: unexpected arm {arm!r}")
        pat = ma.group(1)
        if pat == "_":
            comps = ["_", "_", "_"]
        else:
            mp = re.fullmatch(r"\((.*)\)", pat)
            comps = split_top(mp.group(1)) if mp else []
        if len(comps) != 3 or any(c not in ("true", "false", "_") for c in comps):
            raise TranslateError(f"{rel}: get_auth_method: unexpected pattern {pat!r}")
        rows.append((comps, ma.group(2)))
    return scrut, rows


def parse_verify(src, rel, fields):
    body, _ = block(src, r"\bpub fn verify\(\s*&mut self\s*\)\s*->\s*Result<\(\),\s*ConfigError>", f"{rel}: verify")
    t = norm(body)
    ftys = {n: ty for n, ty, _ in fields}
    pos = 0

    def eat(rx, what):
        nonlocal pos
        m = re.compile(rx).match(t, pos)
        if not m:
            raise TranslateError(f"{rel}: verify: expected {what} at: {t[pos:pos + 140]!r}")
        pos = m.end()
        return m

    stmts = []
    eat(r"let auth_method=self\.get_auth_method\(\);", "`let auth_method = self.get_auth_method();`")
    err = r'return Err\(ConfigError\(("[^"\\]*")\.(?:to_owned|to_string|into)\(\),?\)\);'
    m = eat(r"if auth_method==AuthMethod::([A-Za-z]+)\{" + err + r"\}", "`if auth_method == AuthMethod::X { return Err(..) }`")
    stmts.append(("VRejectAuth", m.group(1), rust_str_lit(m.group(2), "verify")))
    while True:
        m = re.compile(r"else if auth_method==AuthMethod::([A-Za-z]+)\{" + err + r"\}").match(t, pos)
        if not m:
            break
        pos = m.end()
        stmts.append(("VRejectAuth", m.group(1), rust_str_lit(m.group(2), "verify")))
    for s in stmts:
        if s[1] not in AUTH_VARIANTS:
            raise TranslateError(f"{rel}: verify: unknown AuthMethod::{s[1]}")
    m = eat(r"if\[([^\]]*)\]\.contains\(&self\.(" + IDENT + r")\.as_str\(\)\)\{self\.(" + IDENT + r")=self\.(" + IDENT
            + r')\.trim_end_matches\(("[^"\\]*")\)\.into\(\);\}', "the network normalisation `if [..].contains(&self.f.as_str()) { self.f = self.f.trim_end_matches(\"..\").into(); }`")
    if not (m.group(2) == m.group(3) == m.group(4)) or ftys.get(m.group(2)) != "TStr":
        raise TranslateError(f"{rel}: verify: the normalisation statement mixes fields {m.group(2)}, {m.group(3)}, {m.group(4)}")
    netf = m.group(2)
    names = [rust_str_lit(x, "verify: normalised names") for x in split_top(m.group(1))]
    suffix = rust_str_lit(m.group(5), "verify: trim_end_matches")
    if suffix == "":
        raise TranslateError(f"{rel}: verify: trim_end_matches with an empty pattern")
    stmts.append(("VNormalize", netf, names, suffix))
    m = eat(r"let default_rpc_port=match self\.(" + IDENT + r")\.as_str\(\)\{", "`let default_rpc_port = match self.f.as_str() {`")
    if m.group(1) != netf:
        raise TranslateError(f"{rel}: verify: the port table matches on {m.group(1)}, the normalisation on {netf}")
    close = matching(t, pos - 1, "{", "}")
    arms = split_top(t[pos:close])
    pos = close + 1
    eat(r";", "`;` after the port table")
    rows = []
    wild = None
    for arm in arms:
        ma = re.fullmatch(r'("[^"\\]*")=>([0-9][0-9_]*)', arm)
        if ma and wild is None:
            p = int(ma.group(2).replace("_", ""))
            rows.append((rust_str_lit(ma.group(1), "verify: port table"), p))
            continue
        mw = re.fullmatch(r'_=>return Err\(ConfigError\(format!\(("[^"\\]*"),self\.(' + IDENT + r")\)\)\)", arm)
        if mw and wild is None and mw.group(2) == netf:
            wild = rust_str_lit(mw.group(1), "verify: port table")
            continue
        raise TranslateError(f"{rel}: verify: unexpected arm of the port table: {arm!r}")
    if wild is None:
        raise TranslateError(f"{rel}: verify: the port table has no `_ => return Err(..)` arm")
    if len({r[0] for r in rows}) != len(rows):
        raise TranslateError(f"{rel}: verify: the port table has a duplicate (unreachable) row")
    stmts.append(("VPortMatch", netf, rows, wild))
    m = eat(r"if self\.(" + IDENT + r")==([0-9]+)\{self\.(" + IDENT + r")=default_rpc_port;\}", "`if self.p == 0 { self.p = default_rpc_port; }`")
    if m.group(1) != m.group(3) or ftys.get(m.group(1)) not in INT_MAX:
        raise TranslateError(f"{rel}: verify: port defaulting statement mixes fields {m.group(1)}, {m.group(3)}")
    pty = ftys[m.group(1)]
    for _n, p in rows:
        if p >= INT_MAX[pty]:
            raise TranslateError(f"{rel}: verify: port {p} out of range of {pty}")
    stmts.append(("VPortIfUnset", m.group(1), int(m.group(2))))
    eat(r"Ok\(\(\)\)$", "`Ok(())` as the last expression")
    return stmts


def check_from_file(src, rel):
    body, _ = block(src, r"\bpub fn from_file<T:\s*Default\s*\+\s*serde::de::DeserializeOwned>\(\s*path\s*:\s*&PathBuf\s*\)\s*->\s*T", f"{rel}: from_file")
    t = norm(body)
    want = (r"match std::fs::read\(path\)\{Ok\(file_content\)=>toml::from_slice::<T>\(&file_content\)\.unwrap_or_else\(\|e\|\{"
            r'eprintln!\("[^"]*"\);T::default\(\)\}\),Err\(_\)=>T::default\(\),?\}')
    if not re.fullmatch(want, t):
        raise TranslateError(f"{rel}: from_file: unexpected body (expected: unreadable file -> T::default(), "
                             f"unparsable file -> message + T::default()): {t[:200]!r}")


def check_call_order(rel, pats):
    src = norm(translate.code(rel))
    pos = 0
    for p in pats:
        ms = list(re.finditer(p, src))
        if len(ms) != 1:
            raise TranslateError(f"{rel}: expected exactly one occurrence of /{p}/, found {len(ms)}")
        if ms[0].start() < pos:
            raise TranslateError(f"{rel}: /{p}/ occurs out of the expected order (from_file, patch_with_options, verify)")
        pos = ms[0].end()


# ------------------------------------------------------------------ conf_template.toml
def parse_template(rel):
    entries = []
    for ln, line in enumerate(translate.read(rel).splitlines(), 1):
        s = line.strip()
        if not s or s.startswith("#"):
            continue
        m = re.fullmatch(r"(" + IDENT + r")\s*=\s*(.+)", s)
        if not m:
            raise TranslateError(f"{rel}:{ln}: not a `key = value` line: {s!r}")
        k, v = m.group(1), m.group(2).strip()
        if re.fullmatch(r'"[^"\\]*"', v):
            cv = "VStr " + (coq_string(v[1:-1]) if v[1:-1] else "[]")
        elif re.fullmatch(r"[0-9]+", v):
            cv = f"VNum {int(v)}"
        elif v in ("true", "false"):
            cv = "VBool " + v
        else:
            raise TranslateError(f"{rel}:{ln}: value I cannot read: {v!r}")
        if k in [e[0] for e in entries]:
            raise TranslateError(f"{rel}:{ln}: duplicate key {k}")
        entries.append((k, cv))
    return entries


# ------------------------------------------------------------------ Coq output
def coq_list(items, indent="  "):
    if not items:
        return "[]"
    return "[ " + (";\n" + indent + "  ").join(items) + " ]"


def emit_descr(prefix, fields, serde_default, defaults, opts, patch):
    L = []
    L.append(f"Definition {prefix}fields : list fieldd := Eval vm_compute in")
    L.append("  " + coq_list([f"mk_field {coq_string(n)} {ty} ({defaults[n]}) {'true' if skip else 'false'}" for n, ty, skip in fields]) + ".")
    L.append(f"Definition {prefix}serde_default : bool := {'true' if serde_default else 'false'}.")
    L.append(f"Definition {prefix}opts : list optd := Eval vm_compute in")
    L.append("  " + coq_list([f"mk_opt {coq_string(n)} ({k})" for n, k in opts]) + ".")
    L.append(f"Definition {prefix}patch : list pstmt := Eval vm_compute in")
    L.append("  " + coq_list([f"{k} {coq_string(c)} {coq_string(o)}" for k, c, o in patch]) + ".")
    L.append(f"Definition {prefix}descr : descr := mk_descr {prefix}fields {prefix}serde_default {prefix}opts {prefix}patch.")
    L.append("")
    return L


def generate():
    src = translate.code(CONFIG_RS)
    opts = parse_opt(src, CONFIG_RS)
    fields, serde_default = parse_config_struct(src, CONFIG_RS)
    defaults = parse_default(src, CONFIG_RS, fields)
    patch = parse_patch(src, CONFIG_RS, fields, opts)
    scrut, rows = parse_auth(src, CONFIG_RS)
    ftys = {n: ty for n, ty, _ in fields}
    for s in scrut:
        if ftys.get(s) != "TStr":
            raise TranslateError(f"{CONFIG_RS}: get_auth_method: {s} is not a String field of Config")
    vstmts = parse_verify(src, CONFIG_RS, fields)
    check_from_file(src, CONFIG_RS)
    check_call_order(MAIN_RS, [r"let mut conf=config::from_file::<Config>\(&conf_file_path\);", r"conf\.patch_with_options\(opt\);",
                               r"conf\.verify\(\)\.unwrap_or_else\(\|e\|\{eprintln!\(\"\{e\}\"\);std::process::exit\(1\);\}\);"])
    template = parse_template(TEMPLATE)
    for k, _v in template:
        if k not in ftys:
            raise TranslateError(f"{TEMPLATE}: key {k} is not a field of Config")

    csrc = translate.code(CLI_CONFIG_RS)
    copts = parse_opt(csrc, CLI_CONFIG_RS)
    cfields, cserde = parse_config_struct(csrc, CLI_CONFIG_RS)
    cdefaults = parse_default(csrc, CLI_CONFIG_RS, cfields)
    cpatch = parse_patch(csrc, CLI_CONFIG_RS, cfields, copts)
    check_call_order(CLI_RS, [r"let mut conf=config::from_file::<Config>\(&path\.join\(\"teos\.toml\"\)\);", r"conf\.patch_with_options\(opt\);"])

    L = ["(* GENERATED by tools/translate_config.py from /repo/teos/src/{config.rs,cli_config.rs,conf_template.toml}",
         "   — do not edit.  Data only: coq/theories/Config.v interprets it. *)",
         "From Coq Require Import Ascii String List NArith.",
         "From TeosModel Require Import ConfigSyntax.",
         "Import ListNotations.",
         "Local Open Scope N_scope.",
         "",
         "(* ---- teosd: struct Config (+ serde attributes), Config::default(), struct Opt, patch_with_options ---- *)"]
    L += emit_descr("teosd_", fields, serde_default, defaults, opts, patch)
    L.append("(* get_auth_method: match (is_empty of the three fields) { rows, first match wins } *)")
    L.append("Definition auth_scrutinee : list text := Eval vm_compute in " + coq_list([coq_string(s) for s in scrut]) + ".")
    L.append("Definition auth_rows : list (list (option bool) * auth) :=")
    L.append("  " + coq_list(["([" + "; ".join("None" if c == "_" else f"Some {c}" for c in comps) + f"], {a})" for comps, a in rows]) + ".")
    L.append("")
    L.append("(* verify: the statements of the function body, in order *)")
    vs = []
    for s in vstmts:
        if s[0] == "VRejectAuth":
            vs.append(f"VRejectAuth {s[1]} {coq_string(s[2])}")
        elif s[0] == "VNormalize":
            vs.append(f"VNormalize {coq_string(s[1])} [" + "; ".join(coq_string(x) for x in s[2]) + f"] {coq_string(s[3])}")
        elif s[0] == "VPortMatch":
            vs.append(f"VPortMatch {coq_string(s[1])} [" + "; ".join(f"({coq_string(n)}, {p})" for n, p in s[2]) + f"] {coq_string(s[3])}")
        else:
            vs.append(f"VPortIfUnset {coq_string(s[1])} {s[2]}")
    L.append("Definition verify_stmts : list vstmt := Eval vm_compute in")
    L.append("  " + coq_list(vs) + ".")
    L.append("Definition teosd_vdescr : vdescr := mk_vdescr auth_scrutinee auth_rows verify_stmts.")
    L.append("")
    L.append("(* from_file: an unreadable file and an unparsable file both yield T::default() (shape checked by the")
    L.append("   translator); main.rs / cli.rs call from_file, patch_with_options, verify in this order (checked). *)")
    L.append("")
    L.append("(* conf_template.toml: the documented file *)")
    L.append("Definition conf_template_entries : list (text * cval) := Eval vm_compute in")
    L.append("  " + coq_list([f"({coq_string(k)}, {v})" for k, v in template]) + ".")
    L.append("")
    L.append("(* [default: X] notes of the --help texts of struct Opt (informative; strings as written) *)")
    L.append("Definition opt_help_defaults : list (text * text) := Eval vm_compute in")
    L.append("  " + coq_list([f"({coq_string(k)}, {coq_string(v)})" for k, v in opt_doc_defaults(CONFIG_RS)]) + ".")
    L.append("")
    L.append("(* ---- teos-cli: cli_config.rs ---- *)")
    L += emit_descr("teoscli_", cfields, cserde, cdefaults, copts, cpatch)
    return "\n".join(L) + "\n"


REF = os.path.join(os.path.dirname(os.path.abspath(__file__)), "translate_config_ref.v")


@translate.register("Config.v")
def gen():
    try:
        return generate()
    except TranslateError:
        # install the snapshot of the pinned tree (deterministic, whatever an earlier run left behind)
        if os.path.exists(REF):
            os.makedirs(translate.GEN, exist_ok=True)
            with open(REF) as f:
                translate.write_if_changed(os.path.join(translate.GEN, "Config.v"),
                                           "(* STALE: snapshot of the pinned tree, installed because the translator refused the current source *)\n" + f.read())
        raise
