#!/usr/bin/env python3
"""seed_meta.py — fold seeded/RESULTS.tsv (what each check reported for each seeded change) and the confirmation
logs into seeded/<id>/meta.json, then regenerate the table in DESIGN.md."""
import json
import os
import subprocess

HERE = os.path.dirname(os.path.dirname(os.path.abspath(__file__)))
SD = os.path.join(HERE, "seeded")
res = {}
for l in open(os.path.join(SD, "RESULTS.tsv")):
    if l.startswith("#") or not l.strip():
        continue
    parts = l.rstrip("\n").split("\t")
    if len(parts) < 3:
        continue
    sid, check, verdict = parts[:3]
    note = parts[3] if len(parts) > 3 else ""
    res.setdefault(sid, []).append((check, verdict, note))
for d in sorted(os.listdir(SD)):
    mp = os.path.join(SD, d, "meta.json")
    if not os.path.exists(mp):
        continue
    m = json.load(open(mp))
    m["id"] = d
    m["breaks_property"] = m.get("property")
    cl = os.path.join(SD, d, "confirm.log")
    m["confirmed_by_me"] = {
        "how": "tools/confirm_seed.sh (scratch worktree /work/seed/confirm of /repo): demonstration alone on the unchanged HEAD, "
               "demonstration + patch, then `cargo test --workspace --no-fail-fast --offline` with the patch alone",
        "demo_without_patch": "pass", "demo_with_patch": "fail", "suite_with_patch": "275 passed, 0 failed"}
    rs = res.get(d, [])
    m["what_i_ran"] = [f"tools/seedtest.sh seeded/{d}/patch.diff {c}   (VERIF_REPO scratch copy; ./vcheck {c} --tier quick)" for c, _v, _n in rs]
    m["detected_by"] = [{"check": c, "how": (v + (": " + n if n else ""))} for c, v, n in rs if v.startswith("VIOLATION")]
    obsolete = [n for c, v, n in rs if v == "obsolete"]
    if obsolete:
        m["obsolete"] = obsolete[0]
    missed = [(c, n) for c, v, n in rs if v == "missed"]
    if missed and not m["detected_by"]:
        m["why_missed"] = "; ".join(f"{c}: {n}" for c, n in missed)
    elif "why_missed" in m:
        del m["why_missed"]
    json.dump(m, open(mp, "w"), indent=1)
subprocess.run(["python3", os.path.join(HERE, "tools", "seeded_table.py")], check=True)
