"""C02 — decided on the sequential tower model (see tools/tower_common.py, DESIGN.md section 5)."""
import tower_common
from props import c10

TARGETS = ["theories/Properties/C02.v", "theories/Properties/C02_sends.v"]
MON = {"C02"}
KNOWN = {}


def run(ctx):
    def extra(ctx):
        # requests served while a block is being processed: the controlled-schedule exploration on the real tower
        c10.conc_probe(ctx, "C02", {"sends"})
    return tower_common.check(ctx, "C02", TARGETS, MON, KNOWN, extra_run=extra)


def replay(ctx, path):
    return tower_common.replay(ctx, path)
