"""C01 — decided on the sequential tower model (see tools/tower_common.py, DESIGN.md section 5)."""
import tower_common

TARGETS = ["theories/Properties/C01.v"]
MON = {"C01"}
KNOWN = {"C101": {"kind": "late-appointment-truncated-cache"}}


def run(ctx):
    return tower_common.check(ctx, "C01", TARGETS, MON, KNOWN)


def replay(ctx, path):
    return tower_common.replay(ctx, path)
