"""C01 — decided on the sequential tower model (see tools/tower_common.py, DESIGN.md section 5)."""
import tower_common
from props import c10

TARGETS = ["theories/Properties/C01.v", "theories/Properties/C01_breach.v"]
MON = {"C01"}
KNOWN = {"C101": {"kind": "late-appointment-truncated-cache"}}


def run(ctx):
    def extra(ctx):
        # requests served while a block is being processed: the controlled-schedule exploration on the real tower
        c10.conc_probe(ctx, "C01", {"unwatched"})
    return tower_common.check(ctx, "C01", TARGETS, MON, KNOWN, extra_run=extra)


def replay(ctx, path):
    return tower_common.replay(ctx, path)
