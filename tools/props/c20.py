"""C20 — effective configuration is command line over file over defaults; unsafe configurations are refused."""
import glob
import json
import os
import re

import vlib

TARGETS = ["theories/Properties/C20.v"]
TRUSTED = [
    "Coq 8.16.1 kernel (coqc; vm_compute to evaluate the decidable conformance checks on the generated descriptors and "
    "for the Examples; coqchk in the thorough tier); no axioms (Print Assumptions: closed under the global context)",
    "tools/translate_config.py: reads teos/src/config.rs (struct Config + serde attributes, Config::default, struct Opt + "
    "structopt attributes, every statement of patch_with_options, get_auth_method, every statement of verify, the shape of "
    "from_file), cli_config.rs, conf_template.toml and the from_file/patch/verify call order in main.rs and cli.rs; refuses "
    "any other shape",
    "coq/theories/Config.v: hand-written interpreter of the generated descriptors (load = serde/toml with #[serde(default)], "
    "patch, verify) and the hand-written documentation table (bitcoind chain names and RPC ports, the two one-shot switches)",
    "extraction with ExtrOcamlBasic only + coq/extraction/driver*.ml, drv_config.ml (parsing/printing, comparison)",
    "harness/src/bin/cfg/main.rs: drives the real teos::config::{from_file, Config, Opt} and teos::cli_config::{Config, Opt} "
    "(Opt::from_iter_safe, a teos.toml written under .build/, patch_with_options, verify) in the order main.rs / cli.rs use",
    "modelled, not verified: toml 0.5 / serde (a document is refused as a whole on a wrongly typed or out-of-range value of a "
    "known key or a duplicate key, unknown keys ignored) and structopt/clap 2 (long names = field names without '_', u16 "
    "parsing) — both validated by execution on every case",
]
RULE = (
    "exhaustive: (A) every setting x {absent, v1, v2 in the file} x {absent, v1, v2 / flag on the command line} in three "
    "contexts, every setting at once from file / command line / both with different values, with and without a file; "
    "(B) 18 network names (4 documented, bitcoind's main/test, 12 unknown incl. empty) x network given by file / command "
    "line / both x the 8 combinations of user/password/cookie x 3 ways of splitting the credentials between file and "
    "command line x 6 port settings (unset, explicit 0 or non-zero from either source, file overridden by 0); (C) each "
    "credential in 6 states (incl. an explicit empty string overriding the other source) = 216 x 2 networks; (D) the five "
    "flags: file in {absent,true,false}^5 x command line in {unset,set}^5; (E) every pair of settings x every combination "
    "of their states; (F) teos-cli: both options in all states x {no file, file, garbage file} x with/without the daemon's "
    "keys; random: every setting independently absent / file / command line / both with values from a pool with the edges "
    "(0, 65535, 2^32-1, empty string), plus missing file, non-TOML file, one wrongly typed or out-of-range entry, unknown "
    "key, duplicate key, a value or flag structopt refuses. distinct = distinct (file, command line) inputs; non-trivial = "
    "at least one setting given in the file or on the command line"
)


def extraction_targets():
    """Every module the extraction parts require has to be compiled (the driver is shared)."""
    mods = []
    for p in sorted(glob.glob(os.path.join(vlib.COQ, "extraction", "parts", "*.txt"))):
        for l in open(p):
            if l.startswith("Require:"):
                mods += l[len("Require:"):].split()
    return ["theories/" + m.replace(".", "/") + ".vo" for m in mods]


def classify(fail_line):
    m = re.search(r"violated=(\S+)", fail_line)
    first = m.group(1).split(",")[0] if m else "?"
    return {"kind": "config-monitor", "violated": first.split(":")[0], "clause": first}


def run_cases(ctx, tier, label):
    """Harness (real code) + driver (model, monitor).  Returns (summary, mon_fail_lines, corr_fail_lines) or None."""
    cases = os.path.join(ctx.work, f"cases_{tier}.txt")
    scratch = os.path.join(ctx.work, "datadir")
    rc, out, dt = vlib.sh([ctx.bin("cfg"), "config", cases, scratch],
                          env={"VERIF_TIER": tier, "VERIF_SEED": str(ctx.seed)}, timeout=3000)
    if rc != 0:
        ctx.broken.append({"kind": "correspondence", "what": "cfg harness failed", "detail": out[-800:]})
        return None
    rc, out, dt2 = vlib.sh([vlib.DRIVER, cases], timeout=3000)
    summ = vlib.parse_summary(out).get("CFG")
    fails = [l for l in out.splitlines() if l.startswith("FAIL")]
    if rc != 0 or summ is None:
        ctx.broken.append({"kind": "correspondence", "what": f"driver failed on {label}", "detail": out[-800:]})
        return None
    ctx.log(f"{label}: harness {dt:.1f}s driver {dt2:.1f}s {summ}")
    return summ, [f for f in fails if f.startswith("FAIL mon")], [f for f in fails if not f.startswith("FAIL mon")], cases


def source_notes():
    """Things the translator sees that are worth a note but are not part of the property."""
    notes = []
    try:
        import sys
        sys.path.insert(0, os.path.join(vlib.VERIF, "tools"))
        import translate  # noqa: F401
        import translate_config as tc
        src = translate.code(tc.CONFIG_RS)
        fields, _ = tc.parse_config_struct(src, tc.CONFIG_RS)
        defaults = tc.parse_default(src, tc.CONFIG_RS, fields)
        for name, doc in tc.opt_doc_defaults(tc.CONFIG_RS):
            d = defaults.get(name, "")
            m = re.fullmatch(r'VStr \(T "(.*)"\)|VNum (\d+)', d)
            actual = (m.group(1) if m.group(1) is not None else m.group(2)) if m else d
            if actual != doc and not (name == "btc_rpc_port"):
                notes.append(f"--help of teosd says `{name}` [default: {doc}] but Config::default() and conf_template.toml say {actual}")
    except Exception as e:  # a note, never a verdict
        notes.append(f"(help-text comparison skipped: {e})")
    return notes


def run(ctx):
    thorough = ctx.tier == "thorough"
    ctx.translate()
    res = ctx.coq_build(TARGETS + extraction_targets())
    ctx.coq_hygiene(TARGETS, res)
    if thorough and res.get("ok"):
        rc, out, dt = vlib.sh(["coqchk", "-o", "-silent", "-Q", "theories", "TeosModel", "TeosModel.Properties.C20"], cwd=vlib.COQ, timeout=1500)
        ctx.log(f"coqchk TeosModel.Properties.C20 -> rc={rc} in {dt:.1f}s")
        if rc != 0:
            ctx.broken.append({"kind": "proof", "what": "coqchk rejects the cone of Properties/C20", "detail": out[-800:]})
    ok_h = ctx.cargo_build(["cfg"])
    ok_o = ctx.ocaml_build()
    cov = ctx.coverage
    cov["checker_cmd"] = "cd /verif/coq && make theories/Properties/C20.vo   (coqc 8.16.1, full .vo build; Gen/Config.v regenerated from /repo first)"
    cov["trusted_base"] = TRUSTED
    ctx.assumptions += [
        "the file layer of the theorems is a list of well-formed top-level `key = value` pairs (or no/unreadable/unparsable file); "
        "the command-line layer is a parsed Opt (structopt has accepted the arguments)",
        "a teos.toml that toml/serde refuse (wrong type, out-of-range integer, duplicate key) counts as no file: from_file prints "
        "a message and continues with Config::default() — every other line of that file is ignored too",
        "an explicit btc_rpc_port = 0 (file or command line) is indistinguishable from 'not set'",
        "known network = mainnet, testnet, regtest, signet and bitcoind's own chain names main, test (verify accepts those too)",
    ]
    ctx.notes += source_notes()
    if ok_h and ok_o:
        # the thorough generator produces a superset of the quick one (same matrix, same random stream, longer)
        tiers = ["thorough"] if thorough else ["quick"]
        mon_fail_lines, corr_fail_lines = [], []
        total = None
        for t in tiers:
            r = run_cases(ctx, t, f"config[{t}]")
            if r is None:
                break
            summ, mons, corrs, cases = r
            mon_fail_lines += mons
            corr_fail_lines += corrs
            total = dict(summ)  # a widened run subsumes the quick one
            with open(cases) as f:
                lines = f.read(4_000_000).splitlines()
            picks = [l for l in lines if " R ok " in l and " V 0 " not in l and " F 1 0 " not in l][:2]
            picks += [l for l in lines if " R e_multi " in l][:1] + [l for l in lines if " R e_net " in l][:1]
            picks += [l for l in lines if l.startswith("CFG C ") and " V 0 " not in l][:1]
            cov["samples"] = [l[:700] for l in picks]
            # a broken tie in the quick tier widens the search to the thorough generator
            if (corrs or ctx.broken) and not mon_fail_lines and t == "quick" and not thorough:
                ctx.log("a proof / translator / correspondence obligation is broken and the quick cases found no failing "
                        "input: widening the search to the thorough generator")
                tiers.append("thorough")
        if total:
            cov["evaluations"] = total["cases"]
            cov["distinct_nontrivial"] = total["distinct_nontrivial"]
            cov["distinct_inputs"] = total["distinct"]
            cov["traces_validated_against_impl"] = total["cases"]
            cov["exhaustive"] = True
            cov["exhaustive_matrix_cases"] = total["exhaustive_cases"]
            cov["teosd_cases"] = total["daemon_cases"]
            cov["teos_cli_cases"] = total["cli_cases"]
            cov["cases_with_a_setting_in_both_sources"] = total["both_sources"]
            cov["verify_outcomes"] = {k: total[k] for k in ("verify_ok", "e_noauth", "e_multi", "e_net")}
            cov["port_defaulted_from_network"] = total["port_defaulted"]
            cov["command_lines_refused_by_structopt_agreed"] = total["clierr"]
            cov["no_or_garbage_file"] = total["no_file"]
            cov["files_refused_by_toml_agreed"] = total["file_refused"]
            cov["generated_descriptors"] = {k: bool(total[k]) for k in ("conforms", "conforms_cli", "verify_shape", "auth_table_ok",
                                                                        "networks_documented", "defaults_documented")}
            cov["rule"] = RULE
        if corr_fail_lines:
            ctx.broken.append({"kind": "correspondence", "what": "model (interpreting the generated descriptors) and implementation disagree",
                               "first": corr_fail_lines[0][:1500], "count": len(corr_fail_lines)})
        for f in mon_fail_lines[:1]:
            case = f.split("case=", 1)[1] if "case=" in f else f
            detail = f.split(" case=")[0]
            ctx.add_violation("the effective configuration / verify outcome of the real code contradicts C20: " + detail,
                              {"kind": "config", "case": case.strip(), "detail": detail,
                               "failing_cases_in_this_run": len(mon_fail_lines)}, classify(f))
    return ctx.finish("proof")


def replay(ctx, path):
    obj = json.load(open(path))["replay"]
    if obj.get("kind") != "config":
        print(json.dumps(obj, indent=1))
        return 1
    ctx.translate()
    ctx.coq_build(extraction_targets())
    if not (ctx.cargo_build(["cfg"]) and ctx.ocaml_build()):
        return 2
    cf = os.path.join(ctx.work, "replay_case.txt")
    open(cf, "w").write(obj["case"] + " OBS\n")
    out_f = os.path.join(ctx.work, "replay_out.txt")
    vlib.sh([ctx.bin("cfg"), "config-replay", cf, out_f, os.path.join(ctx.work, "datadir")])
    print(open(out_f).read().strip())
    rc, out, _ = vlib.sh([vlib.DRIVER, out_f])
    print(out)
    return 1 if "FAIL mon" in out else 0
