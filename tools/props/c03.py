"""C03 — tower crash at any instant and restart loses no acknowledged work."""
import json
import os
import re
import subprocess
import vlib

TARGETS = ["theories/Properties/C03.v", "theories/Properties/C03_reach.v"]
NSHARDS = 8
TRUSTED = [
    "Coq 8.16.1 kernel; no axioms",
    "Crash.v: SQLite modelled as atomic statements with PK/FK enforcement and ON DELETE CASCADE (users <- appointments <- trackers); "
    "each autocommit statement and each explicit transaction is atomic and durable when the call returns: ASSUMED (a kill is simulated by "
    "unwinding at statement boundaries through hook H2, not by SIGKILL inside SQLite's own write path)",
    "CrashOps.v: the durable trace (op_micro) of every operation of Tower.v, hand-written from gatekeeper/watcher/responder/dbm.rs; tied to the "
    "model by the theorem op_is_its_trace and to the code by the micro-step comparison of this check (statement kinds from rusqlite's trace "
    "hook on the tower's own connection + H2 labels + RPC kinds); CrashOps.restart: heights and indexes after a restart are those before the "
    "interrupted operation (the last known block is persisted only after a poll): ASSUMED for the index contents (C19 covers the index)",
    "CrashReplay.v: replay equivalence of ONE BLOCK is a THEOREM at operation level (C03_replay_connect / _before): kill anywhere from before "
    "the block up to (not including) the watcher's DELETE, restart, the block delivered again: tables equal up to the stamp of unconfirmed "
    "trackers, under the consistency relation CrashReplay.consistent / replay_ok / rej_stable between the node's answers in the first attempt and "
    "in the replay (same verdict, or acceptable-then-confirmed = -27; rejections stable: ASSUMED of the environment, it is the harness's "
    "consistent-node mode); REFUTED with a kernel-evaluated witness for the recorded class (kill between sendrawtransaction and the tracker "
    "INSERT, penalty confirmed while down); resubmission of add_appointment after a lost reply is idempotent (theorem), inside the charge/store "
    "window and for register it is not (witnesses); a kill inside the responder's own statements, the responder over a completed block, "
    "multi-block composition and polls with disconnections are NOT theorems (decided by the fault enumeration of this check)",
    "tools/translate_bootstrap.py: main.rs persists the bootstrap tip when none is stored; chain_monitor.rs persists on a better tip only",
    "the harness replicates main()'s bootstrap (tower key from the keys table, last known block or the node's best tip, components on the last 100 "
    "blocks below it, catch-up poll) because the binary's main cannot be called; the replicated steps follow the generated flags",
    "harness/src/bin/crash + pollworld.rs + world.rs + evlog.rs; hook H2 crash points (teos-common/src/verif.rs) before/after every DatabaseManager "
    "write and around both transaction commits, plus before/after every node RPC in the simulated transport; extraction + drv_crash.ml",
]
RULE = (
    "7 scripted histories (breach accepted / rejected / undecryptable, late appointments, reorg re-announcement, expiry and purge, "
    "completion after 100 blocks delivered in two polls, a poll with a failed block download, a young tower) + random ones. "
    "(1) TRACE TIE: for every operation of every uninterrupted history (each block of each poll is one operation) the micro steps the real "
    "code went through - INSERT/UPDATE/DELETE x users/appointments/trackers, BEGIN..COMMIT with the statements inside, RPC send|getraw, the "
    "reply, the last-known-block write - must equal the extracted CrashOps.op_segs of the model in the same state (loops over hash "
    "containers: up to the order of iterations; a durable write outside a crash-point pair is a mismatch), and the model's tables after "
    "the operation the implementation's. (2) for EVERY crash point met (before/after each durable write, around both transaction commits, "
    "before/after each node RPC; the 100-block history sampled 1 in n in the quick tier) the history is re-run with a kill there: the "
    "database as the kill left it must equal the model's CrashOps.crash_at k of that operation; then restart on the same file, catch-up, "
    "rest of the history; compared with the uninterrupted run and, for a request lost in the crash, with the run without it (both with the "
    "poll a restart makes at once when blocks were pending). Checked: restart succeeds with the same tower id; no dangling records at the "
    "kill, after restart and at the end (extracted Crash.db_inv_b); crash never grants slots and costs at most the in-flight request "
    "(extracted Crash.balance); other records equal one of the two runs; after a crash during block processing the final tables equal the "
    "uninterrupted run's (up to the stamp of unconfirmed trackers) and every submission of that run was made. "
    "(3) family THE CHAIN MOVES WHILE THE TOWER IS DOWN (7 scripted histories, +150 random in the thorough tier; the node answers consistently "
    "with its chain: a confirmed transaction is reported confirmed by getrawtransaction and refused with -27 by sendrawtransaction, a penalty is "
    "only mined once the node was given it): for a kill at EVERY crash point of the poll that answered a breach and of a late (trigger in the "
    "cache) add_appointment, further blocks are mined between the kill and the restart (the penalty confirms / another dispute and the penalty / "
    "unrelated blocks / the block being processed is reorged away, with or without the dispute coming back); the oracle is the uninterrupted "
    "run over the very chain that crash run ended with: same final tables (an acknowledged appointment keeps its tracker or its row), every "
    "penalty of that run submitted at least once. distinct = (history, crash point)")


def flag(name):
    p = os.path.join(vlib.COQ, "theories", "Gen", "Bootstrap.v")
    try:
        m = re.search(name + r" : bool := (true|false)", open(p).read())
        return "1" if (m and m.group(1) == "true") else "0"
    except OSError:
        return "1"


def crash_runs(ctx, tier, tag):
    """Runs the crash harness (sharded) and the driver; returns (summary, FAIL lines, path) or None."""
    env = dict(os.environ, VERIF_TIER=tier, VERIF_SEED=str(ctx.seed), VERIF_BOOTSTRAP_PERSISTS_TIP=flag("BOOTSTRAP_PERSISTS_TIP"))
    outs = [os.path.join(ctx.work, f"cr-{tag}-{i}.txt") for i in range(NSHARDS)]
    procs = [subprocess.Popen([ctx.bin("crash"), outs[i], str(i), str(NSHARDS)], env=env, stdout=subprocess.DEVNULL, stderr=subprocess.DEVNULL)
             for i in range(NSHARDS)]
    bad = [p.wait() for p in procs]
    if any(bad):
        ctx.broken.append({"kind": "correspondence", "what": f"crash harness exited with {bad}"})
        return None
    allf = os.path.join(ctx.work, f"cr-{tag}.txt")
    with open(allf, "w") as w:
        for o in outs:
            w.write(open(o).read())
            os.remove(o)
    rc, out, _ = vlib.sh([vlib.DRIVER, allf], timeout=1200)
    summ = vlib.parse_summary(out).get("CR")
    if summ is None:
        ctx.broken.append({"kind": "correspondence", "what": "driver failed on crash runs", "detail": out[-800:]})
        return None
    return summ, [l for l in out.splitlines() if l.startswith("FAIL")], allf


def digest(ctx, fails):
    """Monitor failures become violations (with replay); anything else is a broken correspondence."""
    seen = set()
    for f in fails[:600]:
        m = re.match(r"FAIL mon prop=C03 line=\d+ detail=([^:]+):(\S+) case=(.*)$", f)
        if m:
            kind, detail, case = m.groups()
            ctx.add_violation(f"{kind} ({detail}) in crash run {case}", {"kind": "crash-run", "case": case, "class": kind, "detail": detail},
                              {"kind": kind})
            continue
        m = re.match(r"FAIL corr prop=C03 line=\d+ what=(\S+) (.*)$", f)
        key = (m.group(1), re.sub(r"^CR \d+ \d+ \S+ -?\d+ ", "", m.group(2))[:120]) if m else ("?", f[:120])
        if key in seen:
            continue
        seen.add(key)
        if len(seen) <= 12:
            what = {"micro-steps": "the micro steps (durable statements, RPCs, reply) of the real code differ from the model's durable trace CrashOps.op_micro",
                    "tables": "the model's tables after an operation differ from the implementation's",
                    "crash-db": "the database a kill left differs from the model's CrashOps.crash_at",
                    "abort": "the model aborts on an operation of a crash history"}.get(key[0], "crash correspondence")
            ctx.broken.append({"kind": "correspondence", "what": what, "detail": f[:700]})
            ctx.log("correspondence: " + f[:300])


def unknown_violation(ctx):
    return any(vlib.match_known(ctx.known, v) is None for v in ctx.violations)


def run(ctx):
    ctx.translate()
    res = ctx.coq_build(TARGETS)
    ctx.coq_hygiene(TARGETS, res)
    ok_h = ctx.cargo_build(["crash"])
    ok_o = ctx.ocaml_build()
    cov = ctx.coverage
    cov["checker_cmd"] = "cd /verif/coq && make theories/Properties/C03.vo"
    cov["trusted_base"] = TRUSTED
    if ok_h and ok_o:
        tiers = [ctx.tier]
        for t in tiers:
            r = crash_runs(ctx, t, t[0])
            if r is None:
                continue
            summ, fails, allf = r
            ctx.log(f"crash runs ({t}): {summ}")
            cov["evaluations"] = cov.get("evaluations", 0) + summ["cases"]
            cov["traces_validated_against_impl"] = cov.get("traces_validated_against_impl", 0) + summ["cases"]
            cov["distinct_nontrivial"] = cov.get("distinct_nontrivial", 0) + summ["distinct_nontrivial"]
            cov["histories"] = summ["histories"]
            cov["crash_points_in_histories"] = summ["crash_points_in_histories"]
            cov["crash_point_kinds"] = summ.get("labels", "")
            cov["operations_trace_compared"] = summ.get("trace_ops", 0)
            cov["durable_steps_trace_compared"] = summ.get("trace_durable_steps", 0)
            cov["micro_step_kinds"] = summ.get("micro_kinds", "")
            cov["crash_databases_compared_with_model"] = summ.get("crashdb_compared", 0)
            cov["restart_memory_reads_compared_with_users_table"] = summ.get("restart_memory_compared", 0)
            cov["crash_databases_skipped_inside_unordered_loop"] = summ.get("crashdb_skipped", 0)
            cov["crash_runs_with_chain_moving_while_down"] = summ.get("down_cases", 0)
            cov["exhaustive"] = True
            cov["rule"] = RULE
            with open(allf) as f:
                cov["samples"] = [l.strip()[:500] for l in f if l.startswith("CR ") or l.startswith("CRTR ")][:4]
            digest(ctx, fails)
            # a broken tie (proof, translator, trace or crash-db correspondence) and no failing input yet: widen the search
            if ctx.broken and not unknown_violation(ctx) and t == "quick":
                ctx.log("a proof/translator/correspondence obligation is broken: widening the search for a failing input (thorough generator)")
                tiers.append("thorough")
    return ctx.finish("proof")


def replay(ctx, path):
    """Re-runs the recorded crash run (history, crash point) on the implementation with the recorded seed and tier
    and evaluates the same monitors; exit 1 when the failure reproduces."""
    data = json.load(open(path))
    obj = data["replay"]
    print(json.dumps(obj, indent=1))
    m = re.match(r"CR (\d+) (\d+) ", obj.get("case", "")) if isinstance(obj, dict) else None
    if not m:
        print("no single failing input is recorded (broken obligation): re-run ./vcheck C03")
        return 1
    ctx.translate()
    if not (ctx.cargo_build(["crash"]) and ctx.ocaml_build()):
        return 1
    env = dict(os.environ, VERIF_TIER=data.get("tier", "quick"), VERIF_SEED=str(data.get("seed", 0)),
               VERIF_BOOTSTRAP_PERSISTS_TIP=flag("BOOTSTRAP_PERSISTS_TIP"))
    out = os.path.join(ctx.work, "cr-replay.txt")
    rc = subprocess.call([ctx.bin("crash"), out, "case", m.group(1), m.group(2)], env=env, stdout=subprocess.DEVNULL, stderr=subprocess.DEVNULL)
    if rc != 0:
        print(f"crash harness exited with {rc}")
        return 1
    _rc, text, _ = vlib.sh([vlib.DRIVER, out], timeout=600)
    fails = [l for l in text.splitlines() if l.startswith("FAIL")]
    for l in fails:
        print(l[:600])
    print("reproduced" if fails else "not reproduced on this tree")
    return 1 if fails else 0


BALANCE_KINDS = {"restart-memory-differs-from-users-table", "crash-granted-slots", "crash-granted-slots-interrupted-update", "crash-cost-more-than-request"}


def crash_probe(ctx, pid, histories, only=None):
    """Used by C09's check: expiry and purge heights must also hold across a RESTART (what Gatekeeper::new reloads); the
    sequential tower histories have no restart, the crash harness does.  Runs the crash enumeration (quick tier) and
    reports, for property `pid`, a monitor failure in one of the expiry/purge histories `histories` that is not a
    recorded C03 finding, with the crash run as replay.  `histories` None = every history; `only(kind, detail)` narrows
    the failures that concern `pid` (C07: the classes about a user's balance)."""
    if not ctx.cargo_build(["crash"]):
        return
    r = crash_runs(ctx, "quick", "probe")
    if r is None:
        return
    summ, fails, _ = r
    known03 = vlib.load_known("C03")
    ctx.coverage["crash_runs_probed"] = summ.get("cases", 0)
    for f in fails:
        m = re.match(r"FAIL mon prop=C03 line=\d+ detail=([^:]+):(\S+) case=(CR (\d+) .*)$", f)
        if not m:
            continue
        kind, detail, case, hist = m.group(1), m.group(2), m.group(3), int(m.group(4))
        if (histories is not None and hist not in histories) or vlib.match_known(known03, {"key": {"kind": kind}}) is not None:
            continue
        if only is not None and not only(kind, detail):
            continue
        ctx.add_violation(f"{pid}: after a restart the tower no longer treats the subscription as before ({kind}: {detail}) in crash run {case}",
                          {"kind": "crash-run", "case": case, "class": kind, "detail": detail, "replay_with": "./vcheck C03 --replay"},
                          {"kind": "crash-probe", "class": kind})
        break
