"""C03 — tower crash at any instant and restart loses no acknowledged work."""
import json
import os
import re
import subprocess
import vlib

TARGETS = ["theories/Properties/C03.v"]
NSHARDS = 8
TRUSTED = [
    "Coq 8.16.1 kernel; no axioms",
    "Crash.v: SQLite modelled as atomic statements with PK/FK enforcement and ON DELETE CASCADE (users <- appointments <- trackers); "
    "each autocommit statement and each explicit transaction is atomic and durable when the call returns: ASSUMED (a kill is simulated by "
    "unwinding at statement boundaries through hook H2, not by SIGKILL inside SQLite's own write path)",
    "tools/translate_bootstrap.py: main.rs persists the bootstrap tip when none is stored; chain_monitor.rs persists on a better tip only",
    "the harness replicates main()'s bootstrap (tower key from the keys table, last known block or the node's best tip, components on the last 100 "
    "blocks below it, catch-up poll) because the binary's main cannot be called; the replicated steps follow the generated flags",
    "harness/src/bin/crash + pollworld.rs + world.rs; hook H2 crash points (teos-common/src/verif.rs) before/after every DatabaseManager write and "
    "around both transaction commits, plus before/after every node RPC in the simulated transport; extraction + drv_crash.ml",
]


def flag(name):
    p = os.path.join(vlib.COQ, "theories", "Gen", "Bootstrap.v")
    try:
        m = re.search(name + r" : bool := (true|false)", open(p).read())
        return "1" if (m and m.group(1) == "true") else "0"
    except OSError:
        return "1"


def run(ctx):
    ctx.translate()
    res = ctx.coq_build(TARGETS)
    ctx.coq_hygiene(TARGETS, res)
    ok_h = ctx.cargo_build(["crash"])
    ok_o = ctx.ocaml_build()
    cov = ctx.coverage
    cov["checker_cmd"] = "cd /verif/coq && make theories/Properties/C03.vo"
    cov["trusted_base"] = TRUSTED
    if ok_h and ok_o:
        env = dict(os.environ, VERIF_TIER=ctx.tier, VERIF_SEED=str(ctx.seed), VERIF_BOOTSTRAP_PERSISTS_TIP=flag("BOOTSTRAP_PERSISTS_TIP"))
        outs = [os.path.join(ctx.work, f"cr-{i}.txt") for i in range(NSHARDS)]
        procs = [subprocess.Popen([ctx.bin("crash"), outs[i], str(i), str(NSHARDS)], env=env, stdout=subprocess.DEVNULL, stderr=subprocess.DEVNULL)
                 for i in range(NSHARDS)]
        bad = [p.wait() for p in procs]
        if any(bad):
            ctx.broken.append({"kind": "correspondence", "what": f"crash harness exited with {bad}"})
        else:
            allf = os.path.join(ctx.work, "cr.txt")
            with open(allf, "w") as w:
                for o in outs:
                    w.write(open(o).read())
                    os.remove(o)
            rc, out, _ = vlib.sh([vlib.DRIVER, allf], timeout=1200)
            summ = vlib.parse_summary(out).get("CR")
            fails = [l for l in out.splitlines() if l.startswith("FAIL")]
            if summ is None:
                ctx.broken.append({"kind": "correspondence", "what": "driver failed on crash runs", "detail": out[-800:]})
            else:
                ctx.log(f"crash runs: {summ}")
                cov["evaluations"] = summ["cases"]
                cov["traces_validated_against_impl"] = summ["cases"]
                cov["distinct_nontrivial"] = summ["distinct_nontrivial"]
                cov["histories"] = summ["histories"]
                cov["crash_points_in_histories"] = summ["crash_points_in_histories"]
                cov["crash_point_kinds"] = summ.get("labels", "")
                cov["exhaustive"] = True
                cov["rule"] = ("7 scripted histories (breach accepted / rejected / undecryptable, late appointments, reorg re-announcement, expiry and purge, "
                               "completion after 100 blocks delivered in two polls, a poll with a failed block download, a young tower) + random ones; "
                               "for EVERY crash point met (before/after each durable write, around both transaction commits, before/after each node RPC; the "
                               "100-block history sampled 1 in n in the quick tier) the history is re-run with a kill there, restart on the same file, "
                               "catch-up, rest of the history; compared with the uninterrupted run and, for a request lost in the crash, with the run "
                               "without it. Checked: restart succeeds with the same tower id; no dangling records after restart and at the end "
                               "(extracted Crash.db_inv_b); crash never grants slots and costs at most the in-flight request (extracted Crash.balance); "
                               "other records equal one of the two runs; after a crash during block processing the final tables equal the uninterrupted "
                               "run's (up to the stamp of unconfirmed trackers) and every submission of that run was made. distinct = (history, crash point)")
                with open(allf) as f:
                    cov["samples"] = [l.strip()[:500] for l in f if l.startswith("CR ")][:3]
                for f in fails[:400]:
                    m = re.match(r"FAIL mon prop=C03 line=\d+ detail=([^:]+):(\S+) case=(.*)$", f)
                    if not m:
                        ctx.broken.append({"kind": "correspondence", "what": f[:300]})
                        continue
                    kind, detail, case = m.groups()
                    ctx.add_violation(f"{kind} ({detail}) in crash run {case}", {"kind": "crash-run", "case": case, "class": kind, "detail": detail},
                                      {"kind": kind})
    return ctx.finish("proof")


def replay(ctx, path):
    obj = json.load(open(path))["replay"]
    print(json.dumps(obj, indent=1))
    print("re-run: ./vcheck C03 (crash runs are enumerated deterministically: history, crash-point index, label, step)")
    return 1
