"""C07slots — standalone run of the slot-formula slice of C07 (tools/slots_check.py): the proofs of
theories/Properties/C07_slots.v + the f32 correspondence/monitor run.  The verdict of C07 itself
belongs to tools/props/c07.py, which calls slots_check.run_slots; this module exists so that the
slice can be exercised alone:  ./vcheck C07slots [--tier thorough] [--replay file]."""
import json

import slots_check


def run(ctx):
    ctx.translate()
    res = ctx.coq_build(slots_check.SLOTS_TARGETS)
    ctx.coq_hygiene(slots_check.SLOTS_TARGETS, res, allow_axioms=slots_check.SLOTS_AXIOMS)
    cov = ctx.coverage
    cov["checker_cmd"] = "cd /verif/coq && make theories/Properties/C07_slots.vo   (coqc 8.16.1, full .vo build)"
    cov["trusted_base"] = ["Coq 8.16.1 kernel (coqc; vm_compute for the single-point statements and Examples)",
                           "tools/translate.py: ENCRYPTED_BLOB_MAX_SIZE from teos-common/src/constants.rs, "
                           "ADD_APPOINTMENT_BODY_LEN from teos/src/api/http.rs",
                           "extraction with ExtrOcamlBasic only + coq/extraction/driver*.ml"] + slots_check.SLOTS_TRUSTED
    # the axioms must be exactly the four of the allow-list (for the statements that mention Flocq terms)
    if res.get("ok") and sorted(cov.get("axioms_reported", [])) != sorted(slots_check.SLOTS_AXIOMS):
        ctx.notes.append("Print Assumptions reports %s, expected exactly %s"
                         % (cov.get("axioms_reported"), sorted(slots_check.SLOTS_AXIOMS)))
    ctx.assumptions += ["blob sizes at most 2^24 bytes (C07_transport_below_bound: both transports cap a request far below)",
                        "ENCRYPTED_BLOB_MAX_SIZE is a power of two <= 2^24 (checked on the generated constant)"]
    total = slots_check.run_slots(ctx)
    if total:
        for k in ("evaluations", "distinct_nontrivial", "traces_validated_against_impl"):
            cov[k] = cov["slots_" + k]
        cov["rule"] = cov["slots_rule"]
        cov["samples"] = cov["slots_samples"]
        cov["exhaustive"] = True
    return ctx.finish("proof")


def replay(ctx, path):
    obj = json.load(open(path))["replay"]
    if obj.get("kind") != "slots":
        print(json.dumps(obj, indent=1))
        return 1
    return slots_check.replay_slots(ctx, obj)
