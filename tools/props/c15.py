"""C15 — every HTTP request gets a documented answer; bad ones change nothing."""
import json
import os
import re
import shutil
import subprocess

import tower_common
import vlib
from props import client_common

TARGETS = ["theories/Properties/C15.v"]
NPROC = 16
TRUSTED = [
    "Coq 8.16.1 kernel (coqc; vm_compute for the table side conditions and the Examples); no axioms (Print Assumptions: closed under "
    "the global context for all 7 theorems)",
    "tools/translate_http.py (ours): reads teos-common/src/errors.rs (every code), teos-common/src/net/http.rs (Endpoint names), "
    "teos/src/api/http.rs (the four *_BODY_LEN caps; every route of `router`: method filter, path, body filters, handler, the order of "
    "the .or chain and the final .recover(handle_rejection); the ApiError constructors and their codes; every statement of the four "
    "handlers before they forward; match_status with its catch-all; parse_grpc_response; handle_rejection: substring rows in source "
    "order, statuses, what falls through), teos/src/api/internal.rs (per method of impl PublicTowerServices: every Status::new(Code::X) "
    "site and the failure it maps, check_service_unavailable, every unwrap()) and Locator::from_slice; any other shape is a TranslateError",
    "level: decision logic proved; library behaviour is ENUMERATED and validated by execution, not proved: hyper's request parsing "
    "(which bytes are an HTTP request, the content-length the server sees), warp 0.3.7's filters (method / path segment / "
    "content_length_limit / is_content_type), warp's rejection statuses and Rejections::preferred (hand-modelled in Http.v from "
    "reject.rs), serde_json + serde_derive + hex on the request types (the harness decodes every body with the same types and hands "
    "the error text / field lengths to the model), tonic's transport of Status codes",
    "coq/extraction/drv_http.ml (ours): case parsing, the monitor's spelling of the documentation that is not in Http.v (reply field "
    "names of the four endpoints); extraction with ExtrOcamlBasic only",
    "harness/src/bin/http (ours): the raw-TCP client, the case generators and their LABELS (the documented answer of each generated "
    "request in the state of its scenario), the scenarios (direct calls on the real internal API), the pass-through PublicTowerServices "
    "wrapper between tonic's server and the real Arc<InternalAPI> that records the forwarded field lengths and the returned tonic code, "
    "the sqlite dump hash (every table, rows sorted) through a read-only connection",
    "HttpTower.v ties the HTTP model to Tower.v (C06/C09 slice: every Err branch returns the input state) through the failure -> tonic "
    "code rows read from internal.rs; the tower core itself is validated by C01-C09's correspondence runs, not here",
]


def classify(fail_line):
    m = re.search(r"what=(\S+) detail=(\S+)", fail_line)
    if not m:
        return {"what": "?"}
    what, detail = m.groups()
    if what == "panic":
        return {"what": "panic", "site": detail}
    if what == "label":
        detail = re.sub(r"-answered-.*", "", detail)
    if what == "doc-answer":
        detail = re.sub(r"-answered-.*", "", detail)
    if what in ("unchanged", "status", "catch-all", "reply-200"):
        return {"what": what}
    return {"what": what, "detail": detail}


def pipelines(ctx, tier, cases=None):
    """http run (slice k of NPROC) ; driver <file>  -> (summary totals, histogram, fail lines, files, ok)"""
    scratch = os.path.join(ctx.work, "dbs")
    shutil.rmtree(scratch, ignore_errors=True)
    os.makedirs(scratch, exist_ok=True)
    env = dict(os.environ)
    env.update({"VERIF_TIER": tier, "VERIF_SEED": str(ctx.seed), "VERIF_LISTENER_ORDER": tower_common.listener_order_env()})
    if cases:
        env["VERIF_HTTP_CASES"] = str(cases)
    procs, files = [], []
    for k in range(NPROC):
        out = os.path.join(ctx.work, f"cases-{tier}-{k}.txt")
        files.append(out)
        e = dict(env)
        e["VERIF_HTTP_SHARD"] = f"{k}/{NPROC}"
        cmd = f"set -o pipefail; timeout 3000 {ctx.bin('http')} run {out} {scratch} && timeout 3000 {vlib.DRIVER} {out}"
        procs.append(subprocess.Popen(["bash", "-c", cmd], stdout=subprocess.PIPE, stderr=subprocess.STDOUT, text=True, errors="replace", env=e))
    total, hist, fails, ok = {}, {}, [], True
    for k, p in enumerate(procs):
        out, _ = p.communicate()
        s = vlib.parse_summary(out).get("HTTP")
        if p.returncode != 0 or s is None:
            ok = False
            ctx.broken.append({"kind": "correspondence", "what": f"http pipeline {k} failed (rc={p.returncode})", "detail": out[-800:]})
            continue
        for a, b in s.items():
            if not isinstance(b, int):
                continue
            if a.startswith("h:"):
                hist[a[2:]] = hist.get(a[2:], 0) + b
            else:
                total[a] = total.get(a, 0) + b
        fails += [l for l in out.splitlines() if l.startswith("FAIL")]
    shutil.rmtree(scratch, ignore_errors=True)
    return total, hist, fails, files, ok


def run(ctx):
    thorough = ctx.tier == "thorough"
    client_common.repo_override(ctx)
    ctx.translate()
    res = ctx.coq_build(TARGETS + client_common.extraction_targets())
    ctx.coq_hygiene(TARGETS, res)
    ok_h = ctx.cargo_build(["http"])
    ok_o = ctx.ocaml_build()
    cov = ctx.coverage
    cov["checker_cmd"] = "cd /verif/coq && make theories/Properties/C15.vo   (coqc 8.16.1, full .vo build)"
    cov["trusted_base"] = TRUSTED
    ctx.assumptions += [
        "C15_error_body_documented is the full statement (any content-type, any body); before the fix 8a3c402 it needed the content-type to be absent or "
        "application/json (warp's 415 text/plain was handed back by handle_rejection: HttpProofs.error_body_needs_media_type_row)",
        "'acceptable size' is read as: a content-length header is present and within the endpoint's cap (a chunked request has no "
        "content-length: warp answers 411 text/plain; that is outside the hypothesis, the monitor only demands a 4xx there)",
        "C15_error_body_documented and C15_non200_unchanged assume the internal handler does not abort (C11) and returns one of the codes "
        "the translator finds in internal.rs; the 'catch-all' clause of the monitor has no such proviso",
        "request targets are in origin form (start with '/'); the request is framed as the harness frames it (Content-Length equal to "
        "the bytes sent, or declared shorter / longer than the cap, or absent, or chunked); bytes that are not an HTTP request (SOCK "
        "cases) are only monitored: an answer, if any, is 4xx, nothing changes, no panic, the API still answers afterwards",
        "the state observed is the tower's sqlite file (dump of every table), as the property says; in-memory state is C07/C11's",
    ]
    if ok_h and ok_o:
        tiers = [("thorough", None)] if thorough else [("quick", None)]
        total, hist, mon, corr = {}, {}, [], []
        sample_file = None
        while tiers:
            tier, cases = tiers.pop(0)
            s, h, fails, files, ok = pipelines(ctx, tier, cases)
            sample_file = sample_file or files[0]
            for a, b in s.items():
                total[a] = total.get(a, 0) + b
            for a, b in h.items():
                hist[a] = hist.get(a, 0) + b
            ctx.log(f"http[{tier}]: " + " ".join(f"{k}={total[k]}" for k in sorted(total)))
            mon += [f for f in fails if f.startswith("FAIL mon")]
            corr += [f for f in fails if not f.startswith("FAIL mon")]
            unknown_mon = [f for f in mon if vlib.match_known(ctx.known, {"key": classify(f)}) is None]
            # a broken tie in the quick tier widens the search to the thorough generator
            if (corr or ctx.broken) and not unknown_mon and tier == "quick":
                tiers.append(("thorough", 400_000))
        if total:
            cov["evaluations"] = total.get("cases", 0)
            cov["traces_validated_against_impl"] = total.get("compared", 0)
            cov["distinct"] = total.get("distinct", 0)
            cov["distinct_nontrivial"] = total.get("distinct_nontrivial", 0)
            cov["forwarded_to_internal_api"] = total.get("forwarded", 0)
            cov["answered_200"] = total.get("ok200", 0)
            cov["raw_socket_cases_monitor_only"] = total.get("sock", 0)
            cov["towers_prepared"] = total.get("tower_builds", 0)
            cov["exhaustive"] = False
            groups = {}
            for k, v in sorted(hist.items()):
                g, _, name = k.partition("_")
                groups.setdefault(g, {})[name] = v
            cov["distribution"] = groups
            cov["rule"] = (
                "raw-TCP requests against teos::api::http::serve in front of the real tower stack (tonic gRPC hop, real InternalAPI / Watcher / "
                "Gatekeeper / Responder on sqlite, simulated bitcoind) in seven prepared states (fresh, registered with an appointment, expired, "
                "no slots, already triggered, bitcoind unreachable, slot maximum), requests signed by users 1-4 (registered and not). "
                "Kinds: proper requests of all four endpoints (and /ping) in every state; structured mutations of every field of every request "
                "(drop, duplicate, retype to number/bool/null/array/object, empty, resize to 1..100 bytes, odd-length hex, non-hex characters, "
                "out-of-range / fractional / exponent / 38-digit integers, foreign signatures, unknown fields, reordered keys, upper-case hex); raw "
                "bodies (random bytes, printable garbage, empty, JSON scalars, truncated / trailing garbage, NUL and invalid UTF-8, nesting 5..400 "
                "deep, 3-70 kB strings, array form); 10 methods x 20 paths (unknown, trailing segments, query strings, case, %-escapes, //); "
                "content-type absent / json / json+charset / upper case / text/plain / form / +json / unparsable; Content-Length exact / absent / "
                "chunked / shorter than the body / beyond the cap; bodies padded to cap-1, cap, cap+1, cap+k, 2x, 10x, 70 kB for every endpoint "
                "and blobs sized around the add_appointment cap; raw socket bytes (garbage, bad version / method / header, 20-600 kB headers and "
                "URIs, conflicting and malformed content-length, bad chunk size, 150 headers, LF-only, HTTP/1.0). Every case carries the label "
                "of its documented answer. distinct = distinct case lines; non-trivial = addressed to a documented endpoint with its method and "
                "a content-length within the documented cap (so content-type, serde, the handler checks and the tower decide the answer)")
            samples = []
            if sample_file and os.path.exists(sample_file):
                for pat in ("^HTTP reg V valid POST 2f6164645f", "^HTTP [a-z]* I4 mut-resize", "^HTTP down E503:32", "^HTTP [a-z]* I0 size-over", "^SOCK [a-z]* sock-two-lengths"):
                    rc2, out2, _ = vlib.sh(f"grep -m1 -E '{pat}' {sample_file} | cut -c1-900", timeout=60)
                    if out2.strip():
                        samples.append(out2.strip())
            cov["samples"] = samples + [f.split("case=", 1)[1].strip()[:600] for f in mon[:2] if "case=" in f]
        if corr:
            ctx.broken.append({"kind": "correspondence", "what": "the HTTP model (following the generated tables) and the implementation disagree",
                               "first": corr[0][:2500], "count": len(corr)})
        seen = set()
        # shortest failing request of each class first
        for f in sorted(mon, key=len):
            key = classify(f)
            kk = json.dumps(key, sort_keys=True)
            if kk in seen:
                continue
            seen.add(kk)
            case = f.split(" case=", 1)[1].strip() if " case=" in f else ""
            ctx.add_violation("C15 monitor false on the real HTTP API: " + f.split(" case=")[0],
                              {"kind": "http", "case": case, "detail": f.split(" case=")[0]}, key)
    return ctx.finish("proof")


def replay(ctx, path):
    obj = json.load(open(path))["replay"]
    if obj.get("kind") != "http":
        print(json.dumps(obj, indent=1))
        return 1
    client_common.repo_override(ctx)
    if not (ctx.cargo_build(["http"]) and ctx.ocaml_build()):
        return 2
    cf = os.path.join(ctx.work, "replay_case.txt")
    open(cf, "w").write(obj["case"] + " OBS\n")
    out_f = os.path.join(ctx.work, "replay_out.txt")
    scratch = os.path.join(ctx.work, "dbs-replay")
    rc, out, _ = vlib.sh([ctx.bin("http"), "replay", cf, out_f, scratch], env={"VERIF_LISTENER_ORDER": tower_common.listener_order_env()}, timeout=600)
    shutil.rmtree(scratch, ignore_errors=True)
    if rc != 0:
        print(out)
        return 2
    rc, out, _ = vlib.sh([vlib.DRIVER, out_f])
    print(open(out_f).read()[:3000])
    print(out)
    return 1 if "FAIL mon" in out else 0
