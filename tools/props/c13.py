"""C13 — the client delivers pending data once a tower recovers; status is truthful."""
import clientflow_common as cf

TARGETS = ["theories/Properties/C13.v"]
RULE = ("same scenario run as C05 (families 1-20 + random), plugin options max-retry-time 2-6 s, auto-retry-delay 2-3 s or 30 s, max "
        "retry interval 1 s. Monitor C13 on the implementation, from the towers' timestamped request logs and listtowers: (1301) one loop per "
        "tower: no two sends of one (tower, locator) closer than 200 ms within one process life / retry epoch other than the "
        "notification-path send (one loop backs off >= 250 ms); (1302) no more than 15 + #locators failing requests per second and tower; "
        "(1303) once a tower has been up and accepting for max-retry + auto-retry + 2 x interval + 5 s (no kill, registration, abandon or "
        "manual retry in between) nothing is pending and it is shown reachable; (1304) with auto-retry 30 s, a tower failing hard "
        "(down / garbage / reset / undecodable signature) with pending data for max-retry + interval + 1 + 4 s is shown unreachable; "
        "(1305) retrytower right after a settle point: refused when reachable / temporary_unreachable / misbehaving / unknown, accepted when "
        "unreachable; (1306) no tower still temporary_unreachable when a settle step hits its cap of 2 x max-retry + interval + 3 s. "
        "Latencies of delivery after recovery are reported in the evidence")
ASSUME = [
    "'within the configured delays' is measured, not proved: the theorems are about abstract manager ticks and retry attempts; the "
    "slack constants of ClientMon.v (polling period 1 s twice, second-granularity idle time, scheduling) are justified there",
    "the retrier's state is not observable from outside: the manual-retry gate is judged on listtowers at settle points (and, for the "
    "subscription-error status, by the model correspondence of the RPC's answer)",
]


def run(ctx):
    return cf.run_property(ctx, "C13", TARGETS, RULE, ASSUME)


def replay(ctx, path):
    return cf.replay(ctx, path, "C13")
