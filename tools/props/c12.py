"""C12 — a bitcoind outage never drops a response and the tower recovers by itself."""
import json
import os
import re
import vlib

TARGETS = ["theories/Properties/C12.v"]
KNOWN_KINDS = {"outage-on-block-path", "outage-request-path-block-arrives"}
TRUSTED = [
    "Coq 8.16.1 kernel; no axioms",
    "ConcReach.v: hand-written thread-level model of carrier.rs (hang_until_bitcoind_reachable, flag_bitcoind_unreachable, the retry "
    "recursion of send_transaction / in_mempool, memo written after a verdict), chain_monitor.rs (poll_best_tip: flag + notify_all after an Ok poll, "
    "flag false on a transient error of the tip look-up; LDK's SpvClient keeps the tip reached when a download fails and still returns Ok) and "
    "internal.rs (check_service_unavailable), on top of ConcTower.v's thread programs (guard lifetimes read off the source); tied to the code by "
    "replaying every scenario on the extracted model under the same oracle / schedule class and comparing, per thread, the sequence of requests on "
    "the wire (kind, transaction up to renaming by first appearance, answered / transport error) and the locks kept at each condition-variable "
    "wait, and which threads are stuck at the end. Reach.v (the abstract protocol machine) predicts the outcome class",
    "that a thread that makes a request again after a transport error is not answered from the memo instead is argued from the carrier lock "
    "(ConcTower's lock_protects_data), not re-proved at the thread level: the theorem allows 'answered from the memo' after an error",
    "harness/src/bin/outage + pollworld.rs: real ChainMonitor + LDK SpvClient over a simulated block source, real tower, the chain monitor in its own "
    "thread and every API request in a worker thread; hook H3 (teos/src/verif_sync.rs) reports waits and lock requests, so 'blocked for good' is "
    "read from the wait-for graph (waiting on the condition variable with the flag false; asking for a lock whose holder is blocked for good), a "
    "10 s time-out is only the fallback; monitor_chain itself is driven once with a stalling download (1 s polling interval, real time)",
    "extraction (ExtrOcamlBasic) + drv_outage.ml",
    "real-thread timing, tokio, std Mutex/Condvar semantics: observed, not proved; 'eventually' is proved over abstract poll events only",
]


def run(ctx):
    ctx.translate()
    res = ctx.coq_build(TARGETS)
    ctx.coq_hygiene(TARGETS, res)
    ok_h = ctx.cargo_build(["outage"])
    ok_o = ctx.ocaml_build()
    cov = ctx.coverage
    cov["checker_cmd"] = "cd /verif/coq && make theories/Properties/C12.vo"
    cov["trusted_base"] = TRUSTED
    if ok_h and ok_o:
        out_f = os.path.join(ctx.work, "ot.txt")
        rc, out, dt = vlib.sh([ctx.bin("outage"), out_f], env={"VERIF_TIER": ctx.tier, "VERIF_SEED": str(ctx.seed)}, timeout=3000)
        if rc != 0:
            ctx.broken.append({"kind": "correspondence", "what": "outage harness failed", "detail": out[-800:]})
        else:
            rc, out, _ = vlib.sh([vlib.DRIVER, out_f], timeout=600)
            summ = vlib.parse_summary(out).get("OT")
            fails = [l for l in out.splitlines() if l.startswith("FAIL")]
            if summ is None:
                ctx.broken.append({"kind": "correspondence", "what": "driver failed on outage scenarios", "detail": out[-800:]})
            else:
                ctx.log(f"outage scenarios: {summ}")
                cov["evaluations"] = summ["cases"]
                cov["traces_validated_against_impl"] = summ["cases"]
                cov["distinct_nontrivial"] = summ["distinct_nontrivial"]
                cov["scenarios_where_the_outage_hit_an_rpc"] = summ["outage_hit"]
                cov["availability_probes_while_known_down"] = summ["probes"]
                cov["outcome_classes"] = summ.get("classes", "")
                cov["scenarios_replayed_on_the_thread_level_model"] = summ.get("replayed", 0)
                cov["per_thread_wire_logs_checked_by_retry_ok"] = summ.get("wire_logs", 0)
                cov["transport_errors_on_the_wire"] = summ.get("wire_errors", 0)
                cov["waits_compared_with_the_model"] = summ.get("waits", 0)
                cov["blocks_handed_to_listeners_checked_exactly_once"] = summ.get("blocks", 0)
                if not summ.get("replayed", 0) or not summ.get("wire_errors", 0):
                    ctx.broken.append({"kind": "correspondence", "what": "no scenario was replayed on the thread-level model / no transport error "
                                       "was seen on the wire: the tie of C12_same_transaction_retried is empty", "detail": str(summ)})
                cov["exhaustive"] = True
                cov["rule"] = ("five base scenarios (breach handled while processing a block; late appointment answered on an API thread; reorg "
                               "re-announcement; stale rebroadcast; 4-block poll with a failed block download at each position) x outage at each of the "
                               "first 6 node RPCs after the marked point x k in {0,2} (thorough {0,1,2,3}) further failing polls x a block mined during the "
                               "outage or not, each next to its fault-free twin; observations: which thread waits for what, replies of probes sent while "
                               "the tower knows the node is down, whether the tower recovers with the node back and two polls, final tables vs the twin, "
                               "last_known_block vs tip; per thread: the node's wire log (requests incl. those that hit the transport error) checked by "
                               "Coq's retry_ok and compared with the replay on ConcReach, the locks kept at each wait (hook H3) compared with the replay. "
                               "plus monitor_chain ITSELF (1 s polling interval) over a 4-block backlog with a download that stalls 1.7 s (thorough: at each "
                               "position) next to its twin; every scenario: the blocks handed to the real listeners are consecutive (Coq's `consecutive`). "
                               "non-trivial = the outage actually hit an RPC")
                with open(out_f) as f:
                    ls = f.read().splitlines()
                cov["samples"] = [l[:600] for l in ls if " 0 0 0 |" in l][:3]
                for f in fails:
                    m = re.match(r"FAIL (\w+) (?:prop=C12 )?line=\d+ (?:detail=(\S+) |field=(\S+) model=\[(.*?)\] impl=\[(.*?)\] )case=(.*)$", f)
                    if not m:
                        ctx.broken.append({"kind": "correspondence", "what": f[:300]})
                        continue
                    kind, detail, field, mo, im, case = m.groups()
                    if kind == "corr":
                        ctx.broken.append({"kind": "correspondence", "what": f"the reachability model and the real threads disagree on {field}",
                                           "model": mo, "impl": im, "case": case})
                    else:
                        k = detail.split(":")[0]
                        ctx.add_violation(f"{detail} in scenario {case}", {"kind": "outage-scenario", "case": case, "detail": detail},
                                          {"kind": k})
    return ctx.finish("proof")


def replay(ctx, path):
    obj = json.load(open(path))["replay"]
    print(json.dumps(obj, indent=1))
    print("re-run: ./vcheck C12 (the scenario list is enumerated deterministically; look for the case above in .build/work/C12/ot.txt)")
    return 1
