"""C05 — the client never loses an appointment, whatever the towers do."""
import clientflow_common as cf

TARGETS = ["theories/Properties/C05.v"]
RULE = ("scripted families (1-20: plain acceptance + duplicates; every add_appointment reply class on the notification path and on the retry "
        "path; outage / give-up / manual and automatic recovery; subscription error with every renewal outcome; every registration class; "
        "SIGKILL at quiescent and at scripted moments (also racing an un-awaited notification and a retrier delivering a batch); abandon and "
        "re-registration; misbehaviour; revocations in every retrier state; family 31: one appointment linked to two towers as accepted / "
        "pending / invalid in every combination, then either tower abandoned, then a restart) + random scenarios over 1-2 towers (5-10 steps of revocation, "
        "duplicate, reply-class switch, outage, settle, manual retry, abandon, registration class, kill(+racing notification)/start, "
        "auto-retry wake, sleep; ending with every tower accepting and a settle). Observation after EVERY step: listtowers, gettowerinfo per "
        "tower, the seven tables (one read transaction), the towers' request logs with timestamps. Monitor C05 on the implementation: every "
        "(tower, locator) notified while registered (hook answered), not abandoned, tower not proven misbehaving: >= 1 record at every "
        "observation incl. right after KILL and after restart, exactly 1 at settle points (2 tolerated after a KILL while the pending row "
        "is one of them). Model correspondence: trace inclusion at settle points. distinct = distinct scenarios")
ASSUME = [
    "SQLite implements Db.v's statement semantics; every statement / explicit transaction is atomic and durable when the call returns "
    "(a kill inside SQLite's own write path is not simulated; SIGKILL of the process is)",
    "one attempt of Retrier::run and one handler invocation are atomic with respect to each other in the model; the implementation's "
    "finer interleavings are exercised by the harness but compared at settle points only",
    "a notification whose hook was never answered (REVNOWAIT followed by KILL) is not yet owed a record (lightningd repeats the hook)",
]


def run(ctx):
    return cf.run_property(ctx, "C05", TARGETS, RULE, ASSUME)


def replay(ctx, path):
    return cf.replay(ctx, path, "C05")
