"""C19 — recent-block look-ups equal the last N blocks of the active chain."""
import json
import os
import vlib
import tower_common

TARGETS = ["theories/Properties/C19.v"]
TRUSTED = [
    "Coq 8.16.1 kernel (coqc; vm_compute for the Examples); no axioms (Print Assumptions: closed under the global context)",
    "tools/translate.py: cache sizes and listener order read from teos/src/main.rs, IRREVOCABLY_RESOLVED from teos-common/src/constants.rs",
    "extraction with ExtrOcamlBasic only + coq/extraction/driver*.ml (parsing/printing, comparison)",
    "harness/src/bin/pure/txindex.rs: drives the real teos::tx_index::TxIndex (hook H1) through new/update/remove_disconnected_block/get/get_height",
    "modelled, not verified: HashMap/VecDeque as association lists/lists; hash and txid injectivity on the generated ids",
]


def classify(line):
    """Key identifying a failing case for known_findings matching."""
    return {"kind": "txindex-monitor"}


def analyse(ctx, cases_path, label):
    rc, out, dt = vlib.sh([vlib.DRIVER, cases_path], timeout=3000)
    summ = vlib.parse_summary(out).get("TI")
    fails = [l for l in out.splitlines() if l.startswith("FAIL")]
    if rc != 0 or summ is None:
        ctx.broken.append({"kind": "correspondence", "what": f"driver failed on {label}", "detail": out[-800:]})
        return None, fails
    ctx.log(f"{label}: {summ}")
    return summ, fails


def run(ctx):
    thorough = ctx.tier == "thorough"
    ctx.translate()
    res = ctx.coq_build(TARGETS)
    ctx.coq_hygiene(TARGETS, res)
    ok_h = ctx.cargo_build(["pure"])
    ok_o = ctx.ocaml_build()
    cov = ctx.coverage
    cov["checker_cmd"] = "cd /verif/coq && make theories/Properties/C19.vo   (coqc 8.16.1, full .vo build)"
    cov["trusted_base"] = TRUSTED
    ctx.assumptions += ["hypothesis (a): disconnected hashes are the back of the queue (what SpvClient::disconnect_blocks delivers)",
                        "hypothesis (b): no key in two live blocks (BIP30/34 for txids; 128-bit prefix for locators)"]
    if ok_h and ok_o:
        cases = os.path.join(ctx.work, "cases.txt")
        tiers = ["quick", "thorough"] if thorough else ["quick"]
        mon_fail_lines = []
        corr_fail_lines = []
        total = None
        for t in tiers:
            widened = (t == "thorough" and not thorough)
            rc, out, dt = vlib.sh([ctx.bin("pure"), "txindex", cases], env={"VERIF_TIER": t, "VERIF_SEED": str(ctx.seed)},
                                  timeout=(600 if widened else 3000))
            if rc == 124 and widened:
                ctx.notes.append("widened search for a failing input stopped after its 10 minute budget")
                break
            if rc != 0:
                ctx.broken.append({"kind": "correspondence", "what": "txindex harness failed", "detail": out[-800:]})
                break
            summ, fails = analyse(ctx, cases, f"txindex[{t}]")
            if summ is None:
                break
            mon_fail_lines += [f for f in fails if f.startswith("FAIL mon")]
            corr_fail_lines += [f for f in fails if not f.startswith("FAIL mon")]
            if total is None:
                total = dict(summ)
            else:
                for k in ("cases", "steps", "valid_cases", "invalid_cases", "reorg_cases", "distinct_nontrivial", "exhaustive_cases", "aborts_agreed"):
                    total[k] += summ[k]
            if t == "quick":
                with open(cases) as f:
                    lines = [next(f).strip() for _ in range(3)]
                    cov["samples"] = [l[:400] for l in lines]
                # one random sample too
                rc2, out2, _ = vlib.sh(f"grep -m1 '^TI [01] 6 ' {cases} | cut -c1-600", timeout=60)
                if out2.strip():
                    cov["samples"].append(out2.strip())
            # a broken tie in the quick tier widens the search to the thorough generator
            if (corr_fail_lines or ctx.broken) and not mon_fail_lines and t == "quick" and not thorough:
                tiers.append("thorough")
        if total:
            cov["evaluations"] = total["cases"]
            cov["steps"] = total["steps"]
            cov["distinct_nontrivial"] = total["distinct_nontrivial"]
            cov["traces_validated_against_impl"] = total["cases"]
            cov["monitored_cases_within_hypotheses"] = total["valid_cases"]
            cov["cases_outside_hypotheses_correspondence_only"] = total["invalid_cases"]
            cov["cases_with_reorg"] = total["reorg_cases"]
            cov["exhaustive_small_scope_cases"] = total["exhaustive_cases"]
            cov["aborts_agreed_model_impl"] = total["aborts_agreed"]
            cov["exhaustive"] = True
            cov["rule"] = ("exhaustive: every sequence of length L over {connect(fresh block, any subset of the non-live keys of a U-key universe), "
                           "connect re-using a live key, disconnect back, re-connect last disconnected, disconnect non-back (last op only)} from a "
                           "full index of N in {1,2,3} blocks, both instantiations (Txid->BlockHash, Locator->Transaction); random: N=6 and N=100, "
                           "0-4 keys per block, re-appearing keys, reorg depths up to N, lengths 40-400; observation after every op = get of every "
                           "queried key and get_height of every queried hash. distinct = distinct op sequences; non-trivial = contains a "
                           "disconnection and at least one look-up answered Some within the hypotheses")
        if corr_fail_lines:
            ctx.broken.append({"kind": "correspondence", "what": "model and implementation disagree on TxIndex observations",
                               "first": corr_fail_lines[0][:1500], "count": len(corr_fail_lines)})
        for f in mon_fail_lines[:1]:
            case = f.split("case=", 1)[1] if "case=" in f else f
            ctx.add_violation("TxIndex look-up differs from the list-of-blocks window: " + f.split(" case=")[0],
                              {"kind": "txindex", "case": case.strip(), "detail": f.split(" case=")[0]}, classify(f))
    # the two instances the tower keeps (Watcher: locator -> transaction, Responder: txid -> block hash) are fed by the chain listeners:
    # what the tower looks up after disconnections must be what the model, whose indexes ARE the last-N-blocks window, looks up
    if ok_h and ok_o:
        tower_common.tower_probe(ctx, "C19", {"C04"}, {"rpc", "trks"},
                                 why="look-ups of the tower's own index instances during histories with disconnections")
    return ctx.finish("proof")


def replay(ctx, path):
    obj = json.load(open(path))["replay"]
    if obj.get("kind") == "tower-history":
        return tower_common.replay(ctx, path)
    if obj.get("kind") != "txindex":
        print(json.dumps(obj, indent=1))
        return 1
    if not (ctx.cargo_build(["pure"]) and ctx.ocaml_build()):
        return 2
    cf = os.path.join(ctx.work, "replay_case.txt")
    open(cf, "w").write(obj["case"] + " OBS\n")
    out_f = os.path.join(ctx.work, "replay_out.txt")
    vlib.sh([ctx.bin("pure"), "txindex-replay", cf, out_f])
    rc, out, _ = vlib.sh([vlib.DRIVER, out_f])
    print(out)
    return 1 if "FAIL mon" in out else 0
