"""C06 — decided on the sequential tower model (see tools/tower_common.py, DESIGN.md section 5)."""
import tower_common
from props import c10

TARGETS = ["theories/Properties/C06.v"]
MON = {"C06"}
KNOWN = {}


def run(ctx):
    def extra(ctx):
        # the gate is evaluated while blocks move the heights: requests racing with the block at the expiry height
        # (controlled schedules on the real tower; a reply the thread programs do not predict is a broken tie here)
        c10.conc_probe(ctx, "C06", set(), case_filter=("add", "get", "expiry"))
    return tower_common.check(ctx, "C06", TARGETS, MON, KNOWN, extra_run=extra)


def replay(ctx, path):
    return tower_common.replay(ctx, path)
