"""C06 — decided on the sequential tower model (see tools/tower_common.py, DESIGN.md section 5)."""
import tower_common

TARGETS = ["theories/Properties/C06.v"]
MON = {"C06"}
KNOWN = {}


def run(ctx):
    return tower_common.check(ctx, "C06", TARGETS, MON, KNOWN)


def replay(ctx, path):
    return tower_common.replay(ctx, path)
