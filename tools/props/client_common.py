"""Shared pieces of the client-side checks (C18, C05, C14, C13).

`repo_override()`: when VERIF_REPO names another checkout of rust-teos (a scratch git worktree used to try a
patch or a mutation), the translator already reads it (vlib.REPO); this makes the Rust harness and the plugin
binary build against it too, without touching the committed harness/Cargo.toml: a copy of harness/ with the path
dependencies rewritten lives under .build/harness-alt and builds into .build/target-alt.
"""
import hashlib
import os
import re
import shutil

import vlib


def repo_override(ctx):
    """kept for callers: the override now happens in vlib.Ctx (every check honours VERIF_REPO)"""
    vlib.repo_override(ctx.log)


def tree_hash(paths):
    """content hash of source files (cache key of scenario runs)"""
    h = hashlib.sha256()
    for base in paths:
        for root, dirs, files in os.walk(base):
            dirs[:] = sorted(d for d in dirs if d not in ("target", ".git"))
            for f in sorted(files):
                if f.endswith((".rs", ".toml", ".proto", ".lock")):
                    p = os.path.join(root, f)
                    h.update(p.encode())
                    try:
                        h.update(open(p, "rb").read())
                    except OSError:
                        pass
    return h.hexdigest()[:16]


def extraction_targets():
    """the .vo files coq/extraction/build.sh requires (every `Require:` line of parts/*.txt), so that a check can
    build the shared driver from a clean tree without `./vcheck setup`"""
    parts = os.path.join(vlib.COQ, "extraction", "parts")
    mods = []
    for fn in sorted(os.listdir(parts)):
        for l in open(os.path.join(parts, fn)):
            if l.startswith("Require:"):
                mods += l[len("Require:"):].split()
    return ["theories/" + m.replace(".", "/") + ".vo" for m in mods]
