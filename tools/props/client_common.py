"""Shared pieces of the client-side checks (C18, C05, C14, C13).

`repo_override()`: when VERIF_REPO names another checkout of rust-teos (a scratch git worktree used to try a
patch or a mutation), the translator already reads it (vlib.REPO); this makes the Rust harness and the plugin
binary build against it too, without touching the committed harness/Cargo.toml: a copy of harness/ with the path
dependencies rewritten lives under .build/harness-alt and builds into .build/target-alt.
"""
import hashlib
import os
import re
import shutil

import vlib


def repo_override(ctx):
    repo = os.path.realpath(vlib.REPO)
    if repo == "/repo":
        return
    alt = os.path.join(vlib.BUILD, "harness-alt")
    os.makedirs(alt, exist_ok=True)
    # sources: keep mtimes so cargo only rebuilds what changed
    vlib.sh(["rsync", "-a", "--delete", "--exclude", ".cargo", "--exclude", "Cargo.toml", os.path.join(vlib.HARNESS, ""), alt + "/"])
    man = open(os.path.join(vlib.HARNESS, "Cargo.toml")).read()
    man2 = re.sub(r'path = "/repo/', f'path = "{repo}/', man)
    p = os.path.join(alt, "Cargo.toml")
    if not os.path.exists(p) or open(p).read() != man2:
        open(p, "w").write(man2)
    os.makedirs(os.path.join(alt, ".cargo"), exist_ok=True)
    cfg = '[net]\noffline = true\n[build]\ntarget-dir = "../target-alt"\n'
    p = os.path.join(alt, ".cargo", "config.toml")
    if not os.path.exists(p) or open(p).read() != cfg:
        open(p, "w").write(cfg)
    vlib.HARNESS = alt
    vlib.TARGET = os.path.join(vlib.BUILD, "target-alt")
    ctx.log(f"VERIF_REPO={repo}: harness built from {alt} into {vlib.TARGET}")
    ctx.notes.append(f"checked against VERIF_REPO={repo} (not /repo)")


def tree_hash(paths):
    """content hash of source files (cache key of scenario runs)"""
    h = hashlib.sha256()
    for base in paths:
        for root, dirs, files in os.walk(base):
            dirs[:] = sorted(d for d in dirs if d not in ("target", ".git"))
            for f in sorted(files):
                if f.endswith((".rs", ".toml", ".proto", ".lock")):
                    p = os.path.join(root, f)
                    h.update(p.encode())
                    try:
                        h.update(open(p, "rb").read())
                    except OSError:
                        pass
    return h.hexdigest()[:16]


def extraction_targets():
    """the .vo files coq/extraction/build.sh requires (every `Require:` line of parts/*.txt), so that a check can
    build the shared driver from a clean tree without `./vcheck setup`"""
    parts = os.path.join(vlib.COQ, "extraction", "parts")
    mods = []
    for fn in sorted(os.listdir(parts)):
        for l in open(os.path.join(parts, fn)):
            if l.startswith("Require:"):
                mods += l[len("Require:"):].split()
    return ["theories/" + m.replace(".", "/") + ".vo" for m in mods]
