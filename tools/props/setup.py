"""setup: build everything from files on disk (offline)."""
import os
import sys
import vlib


def run():
    ctx = vlib.Ctx("setup", "quick", 0)
    ok = ctx.translate()
    res = ctx.coq_build(["all"], timeout=3000) if False else None
    vlib.gen_coqproject()
    with vlib.BuildLock():
        rc, out, dt = vlib.sh("coq_makefile -f _CoqProject -o Makefile && make -j16 -k", cwd=vlib.COQ, timeout=3000)
    ctx.log(f"coq full build rc={rc} in {dt:.1f}s")
    if rc != 0:
        print(out[-3000:])
    ok2 = ctx.cargo_build([], release=False, timeout=3400)
    ok3 = ctx.ocaml_build()
    return 0 if (ok and rc == 0 and ok2 and ok3) else 1
