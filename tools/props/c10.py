"""C10 — concurrent requests and block events behave as if executed one at a time."""
import json
import os
import re
import subprocess

import vlib
from props import client_common

TARGETS = ["theories/Properties/C10.v"]
NPROC = 16
TRUSTED = [
    "Coq 8.16.1 kernel (coqc; vm_compute only for the Examples / refutation witnesses); no axioms "
    "(Print Assumptions: closed under the global context)",
    "ConcTower.v: hand-written thread programs of register / add_appointment / get_appointment / get_subscription_info / block connected / block "
    "disconnected at lock-acquisition granularity (guard lifetimes read off watcher.rs, gatekeeper.rs, responder.rs, carrier.rs, "
    "api/internal.rs), action bodies = Tower.v's definitions; ConcTowerProofs.exec_is_step proves that a program run without "
    "interference is Tower.v's sequential step; interleaving semantics run_sched (event granularity), run_coarse (one letter per "
    "lock acquisition, what the controlled scheduler replays), std Mutex poisoning as die/poisoned",
    "proofs: ConcTowerProofs.v (structural theorem g_thread: a guarantee of the ~20 primitive actions lifts to every action of every "
    "thread program; instances: SQL-statement sequences / DbInv, lock_protects_data; mutual exclusion; invariance over all schedules), "
    "ConcBreach.v (Owicki-Gries outline of add_appointment || block connected: accepted_then_watched_or_gone), ConcLin.v (read-only "
    "threads; a thread only panics at its own sites; witnesses by vm_compute), ConcReg.v (any number of concurrent registrations are "
    "linearizable), ConcPurge.v (Owicki-Gries outline of register || the gatekeeper's purge: an acknowledged registration survives), "
    "ConcCoarse.v (every run_coarse execution is a run_sched execution; coarse configurations are settled), ConcMix.v / ConcRW.v / "
    "ConcDisc.v (a reader against one arbitrary thread: reduction to mix runs over the other thread's solo states; instances register, "
    "disconnect, add_appointment off the trigger path), ConcComm.v (commuting threads whose first actions decide the order: register || "
    "disconnect)",
    "the tie of the thread programs to the code: hook H3 (teos/src/verif_sync.rs) in CONTROLLED mode — harness/src/bin/conc parks "
    "every thread in before_acquire and grants one lock request at a time, so a schedule (one thread index per lock "
    "acquisition) is replayed exactly on the real Gatekeeper/Watcher/Responder/Carrier/InternalAPI (harness/src/world.rs, "
    "simulated bitcoind); every explored word is replayed on the extracted model's run_coarse and replies, the three tables, "
    "gatekeeper memory, RPC multiset, poisoning and the per-thread sequence of lock acquisitions must agree; the set of words "
    "within the preemption bound must equal the set the model enumerates",
    "extraction with ExtrOcamlBasic only + coq/extraction/driver*.ml, drv_conc.ml (parsing, comparison, the monitor's "
    "bookkeeping on the implementation's observations)",
    "interleaving at lock-acquisition granularity is sound for data inside a Mutex (Rust's type system); the three AtomicU32 "
    "heights are separate events in the model's fine-grained semantics (the theorems quantify over those schedules too) but the "
    "controlled scheduler cannot preempt at an atomic access: on the real code a thread's atomic accesses happen right after its "
    "preceding lock event",
    "std Mutex semantics incl. poisoning, tokio (each request runs on the calling thread through a current-thread runtime), SQLite "
    "statement atomicity (Crash.v): modelled, not verified",
]


# every refutation theorem of Properties/C10.v names a behaviour of the model; the model is only allowed to keep it
# while the REAL code shows it (class of the monitor failure observed on the implementation's runs)
REFUTATIONS = {
    "C10_single_charge_refuted": "ledger:same-appointment-submitted-concurrently",
    "C10_add_connect_not_linearizable": "serial:height-stamps-only",
    "C10_reader_reply_not_linearizable": "reply:get:appointment-visible-before-its-trigger-is-handled",
    "C10_reader_purge_reply_not_linearizable": "reply:get:not-found-after-its-owner-was-purged",
    "C10_reader_add_reply_not_linearizable": "reply:getsub:charged-before-the-appointment-is-stored",
    "C10_reader_block_reply_not_linearizable": "reply:get:expiry-test-before-the-block-tables-after-it",
    "C10_register_add_replies_not_linearizable": "linear:add+reg:RO,AO",
}


def shard_run(ctx, tier, tag, extra_env=None):
    """conc run (NPROC shards, by case) then the driver on every shard; returns (summary, CCASE lines, FAIL lines, ok)"""
    env = dict(os.environ)
    env.update({"VERIF_TIER": tier, "VERIF_SEED": str(ctx.seed)})
    if extra_env:
        env.update(extra_env)
    procs = []
    for k in range(NPROC):
        out_f = os.path.join(ctx.work, f"{tag}_{k}.txt")
        cmd = (f"set -o pipefail; timeout 3000 {ctx.bin('conc')} run {out_f} {k} {NPROC} 2>{out_f}.log "
               f"&& timeout 3000 {vlib.DRIVER} {out_f}")
        procs.append(subprocess.Popen(["bash", "-c", cmd], stdout=subprocess.PIPE, stderr=subprocess.STDOUT, text=True, env=env))
    total, ccases, fails, ok = {}, [], [], True
    mon_hist = {}
    for k, p in enumerate(procs):
        out, _ = p.communicate()
        if p.returncode != 0:
            ok = False
            ctx.broken.append({"kind": "correspondence", "what": f"conc shard {k} failed (rc={p.returncode})", "detail": out[-800:]})
            continue
        s = vlib.parse_summary(out).get("CC")
        if s is None:
            continue   # a shard without cases
        for a, b in s.items():
            if isinstance(b, int):
                total[a] = (max(total.get(a, 0), b) if a == "max_word" else total.get(a, 0) + b)
        for item in str(s.get("mon", "-")).split(";"):
            if "=" in item:
                a, b = item.rsplit("=", 1)
                mon_hist[a] = mon_hist.get(a, 0) + int(b)
        ccases += [l[len("CCASE "):] for l in out.splitlines() if l.startswith("CCASE ")]
        fails += [l for l in out.splitlines() if l.startswith("FAIL")]
    total["mon_hist"] = mon_hist
    return total, ccases, fails, ok


MON_RE = re.compile(r"FAIL mon prop=C10 line=\d+ check=(\S+) class=(\S+) ops=(\S+) case=(\S+) detail=(.*) word=([\d ]*)$")


def run(ctx):
    thorough = ctx.tier == "thorough"
    client_common.repo_override(ctx)
    ctx.translate()
    res = ctx.coq_build(TARGETS + client_common.extraction_targets())
    ctx.coq_hygiene(TARGETS, res)
    ok_h = ctx.cargo_build(["conc"])
    ok_o = ctx.ocaml_build()
    cov = ctx.coverage
    cov["checker_cmd"] = "cd /verif/coq && make theories/Properties/C10.vo   (coqc 8.16.1, full .vo build)"
    cov["trusted_base"] = TRUSTED
    ctx.assumptions += [
        "bitcoind is reachable throughout (the reachability flag is true; outages are C12)",
        "one chain-monitor thread: block events are delivered one after the other, never two at a time",
        "blocks of the explored cases carry at most one watched locator (HashMap iteration order would otherwise make the lock "
        "trace of handle_breaches depend on the process's hash seed)",
        "linearizability is claimed for the pairs proved in Properties/C10.v only; the header of that file lists the refuted and the open pairs",
    ]
    if ok_h and ok_o:
        tiers = ["thorough"] if thorough else ["quick"]
        total, ccases, mon, corr = {}, [], [], []
        for t in tiers:
            s, cc, fails, ok = shard_run(ctx, t, "runs_" + t)
            ctx.log(f"conc[{t}]: " + ", ".join(f"{a}={b}" for a, b in s.items() if a != "mon_hist"))
            for a, b in s.items():
                if isinstance(b, int):
                    total[a] = (max(total.get(a, 0), b) if a == "max_word" else total.get(a, 0) + b)
            total.setdefault("mon_hist", {})
            for a, b in s.get("mon_hist", {}).items():
                total["mon_hist"][a] = total["mon_hist"].get(a, 0) + b
            ccases += cc
            mon += [f for f in fails if f.startswith("FAIL mon")]
            corr += [f for f in fails if not f.startswith("FAIL mon")]
            unknown = [f for f in mon if MON_RE.match(f) and vlib.match_known(ctx.known, {"key": key_of(MON_RE.match(f))}) is None]
            # a broken tie / proof in the quick tier widens the search to the thorough enumeration
            if (corr or ctx.broken) and not unknown and t == "quick":
                tiers.append("thorough")
        if total:
            cov["evaluations"] = total.get("runs", 0) + total.get("seq_runs", 0)
            cov["controlled_schedules_run_on_the_real_tower"] = total.get("runs", 0)
            cov["sequential_orders_run_on_the_real_tower"] = total.get("seq_runs", 0)
            cov["lock_acquisitions_scheduled"] = total.get("acquisitions", 0)
            cov["longest_schedule"] = total.get("max_word", 0)
            cov["distinct_nontrivial"] = total.get("distinct_nontrivial", 0)
            cov["traces_validated_against_impl"] = total.get("runs", 0) + total.get("seq_runs", 0)
            cov["cases"] = total.get("cases", 0)
            per = {}
            for l in ccases:
                f = l.split(":")
                # name may contain ':' (triples are named T:...): the last four fields are fixed
                name = ":".join(f[:-4])
                per[name] = {x.split("=")[0]: int(x.split("=")[1]) for x in f[-4:]}
            cov["schedules_per_case"] = {n: v["schedules"] for n, v in sorted(per.items())}
            cov["preemption_bound"] = {"pairs": max([v["bound"] for v in per.values() if v["threads"] == 2] or [0]),
                                       "triples": max([v["bound"] for v in per.values() if v["threads"] == 3] or [0])}
            cov["monitor_failures_on_the_real_tower_by_class"] = total.get("mon_hist", {})
            cov["runs_with_panic_poison_or_deadlock"] = total.get("impl_failures", 0)
            cov["exhaustive"] = True
            cov["rule"] = (
                "for every case (a reachable pre-state built by sequential operations + two or three operations drawn from register new/"
                "existing, add_appointment new/update/other user/undecryptable/trigger-in-cache with the node answering ok, in-mempool, "
                "-26, -27, get_appointment, get_subscription_info, block connected with the dispute / empty / completing a tracker / purging "
                "the user / at whose height the user's subscription expires (gatekeeper already at h, watcher still at h-1), block "
                "disconnected, disconnect-then-connect on the monitor thread): ALL schedules at lock-acquisition granularity with at most "
                "`preemption_bound` preemptions (a preemption = switching away from a thread that could have continued), enumerated by "
                "stateless depth-first search on the real tower, plus every sequential order of the same operations on the real tower; "
                "each run: replies, tables users/appointments/trackers, gatekeeper memory, RPC multiset, poisoning, per-thread lock "
                "trace compared with the model's run_coarse on the same word; the word set compared with the model's own enumeration; "
                "monitor (serial / unwatched / ledger / orphan / panic / reply / linear) evaluated on the implementation's observations. "
                "distinct = distinct (case, word); all are non-trivial (every word interleaves at least two threads' lock acquisitions or "
                "is one of the non-preemptive orders)")
            try:
                with open(os.path.join(ctx.work, f"runs_{tiers[0]}_0.txt")) as f:
                    ls = [l.rstrip("\n") for l in f if l.startswith("KR S")]
                cov["samples"] = [l[:500] for l in ls[:2]] + [l[:500] for l in ls[-1:]]
            except OSError:
                pass
        hist = total.get("mon_hist", {}) if total else {}
        for thm, cls in REFUTATIONS.items():
            if total and hist.get(cls, 0) == 0:
                ctx.broken.append({"kind": "correspondence", "what": f"refutation {thm} is not reproduced on the real code any more "
                                   f"(no run of the implementation shows `{cls}`): the model still has the defect, the code does not"})
        cov["refutation_witnesses_reproduced_on_the_real_code"] = {thm: hist.get(cls, 0) for thm, cls in REFUTATIONS.items()}
        if corr:
            ctx.broken.append({"kind": "correspondence", "what": "the thread programs of ConcTower.v and the real tower disagree "
                               "(replies / state / lock trace / schedule set) on a controlled schedule",
                               "first": corr[0][:3000], "count": len(corr)})
        seen = set()
        # report the most telling violation first: what the property names, then serializability, then aborts
        prio = {"unwatched": 0, "ledger": 1, "orphan": 2, "serial": 3, "panic": 4, "reply": 5, "linear": 6}
        mon.sort(key=lambda f: (prio.get(MON_RE.match(f).group(1), 9) if MON_RE.match(f) else 9))
        for f in mon:
            m = MON_RE.match(f)
            if not m:
                ctx.broken.append({"kind": "correspondence", "what": f[:500]})
                continue
            key = key_of(m)
            kk = json.dumps(key, sort_keys=True)
            if kk in seen:
                continue
            seen.add(kk)
            check, cls, ops, case, detail, word = m.groups()
            ctx.add_violation(f"C10 monitor `{check}` false on the real tower ({cls}): case {case}, schedule {word.strip()}",
                              {"kind": "conc", "case": case, "word": [int(x) for x in word.split()], "check": check, "class": cls,
                               "detail": detail[:3000]}, key)
    cov["violation_classes_seen"] = sorted({f"{v['key']['check']}:{v['key']['class']}" + ("" if vlib.match_known(ctx.known, v) is None else " (known)")
                                             for v in ctx.violations})
    return ctx.finish("proof")


def key_of(m):
    check, cls, ops, case, detail, word = m.groups()
    return {"check": check, "class": cls}


def replay(ctx, path):
    obj = json.load(open(path))["replay"]
    if obj.get("kind") != "conc":
        print(json.dumps(obj, indent=1))
        return 1
    client_common.repo_override(ctx)
    ctx.translate()
    ctx.coq_build(client_common.extraction_targets())
    if not (ctx.cargo_build(["conc"]) and ctx.ocaml_build()):
        return 2
    cf = os.path.join(ctx.work, "replay_case.txt")
    word = obj["word"]
    open(cf, "w").write(f"REPLAY {obj['case']} {len(word)} {' '.join(str(x) for x in word)}\n")
    out_f = os.path.join(ctx.work, "replay_out.txt")
    vlib.sh([ctx.bin("conc"), "replay", cf, out_f], env={"VERIF_TIER": ctx.tier})
    rc, out, _ = vlib.sh([vlib.DRIVER, out_f])
    for l in open(out_f):
        if l.startswith("KR S"):
            print(l.rstrip()[:1500])
    print(out)
    return 1 if "FAIL mon" in out else 0


def conc_probe(ctx, pid, want_checks, case_filter=("add",)):
    """Used by the checks of properties whose theorems are about the sequential model but whose statement also
    covers requests served WHILE a block is being processed (C01: answered before the request returns / the block is
    handled; C02: no response from a stale cache entry): runs the controlled-schedule exploration of C10 on the real
    tower and reports, for property `pid`,
      * a monitor failure of one of `want_checks` (not a recorded C10 finding) as a concrete violation (the replay is the
        schedule), and
      * a disagreement between the thread programs and the real code (lock trace, state, schedule set) in a case that
        involves add_appointment as a broken obligation: the sequential theorems lift to the concurrent tower only
        through the guard lifetimes ConcTower.v records and C10's theorems use."""
    if not ctx.cargo_build(["conc"]):
        return
    known10 = vlib.load_known("C10")
    s, cc, fails, ok = shard_run(ctx, "quick", "probe")
    ctx.log("conc probe: " + ", ".join(f"{a}={b}" for a, b in s.items() if a != "mon_hist"))
    ctx.coverage["concurrent_schedules_probed_on_the_real_tower"] = s.get("runs", 0)
    seen = set()
    for f in fails:
        m = MON_RE.match(f)
        if m:
            check, cls, ops, case, detail, word = m.groups()
            key = key_of(m)
            if check not in want_checks or vlib.match_known(known10, {"key": key}) is not None:
                continue
            kk = json.dumps(key, sort_keys=True)
            if kk in seen:
                continue
            seen.add(kk)
            ctx.add_violation(f"{pid}: concurrent monitor `{check}` false on the real tower ({cls}): case {case}, schedule {word.strip()}",
                              {"kind": "conc", "case": case, "word": [int(x) for x in word.split()], "check": check, "class": cls,
                               "detail": detail[:3000], "replay_with": "./vcheck C10 --replay"},
                              {"kind": "conc", "check": check, "class": cls})
        elif f.startswith("FAIL") and any(t in f for t in case_filter):
            if not any(b.get("kind") == "correspondence" and "thread programs" in b.get("what", "") for b in ctx.broken):
                ctx.broken.append({"kind": "correspondence", "what": "the thread programs of ConcTower.v and the real tower disagree on a "
                                   "controlled schedule of a case with add_appointment (guard lifetime / ordering changed?)",
                                   "first": f[:2000]})
