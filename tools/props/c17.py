"""C17 — blobs decrypt only under their dispute id; signatures bind signer and message."""
import glob
import hashlib
import json
import os
import subprocess

import vlib

TARGETS = ["theories/Properties/C17.v"]
NPARTS = 14

TRUSTED = [
    "Coq 8.16.1 kernel (coqc; coqchk -o on the cone in the thorough tier; vm_compute for the test vectors, the byte sweeps of the zbase32 group lemma and the Examples); "
    "no axioms (Print Assumptions of all 19 theorems: closed under the global context)",
    "tools/translate_crypto.py: nonce expression, key-derivation / cipher / (de)serialisation statements of encrypt and decrypt, the bodies of "
    "sign/verify/recover_pk (teos-common/src/cryptography.rs) and the slice bounds of Locator::new (appointment.rs); strict templates, anything "
    "else is a broken tie; tools/translate.py: LOCATOR_LEN",
    "extraction with ExtrOcamlBasic only + coq/extraction/driver*.ml, drv_crypto.ml (token parsing, hex, comparison)",
    "harness/src/bin/crypto: drives the real encrypt/decrypt/sign/verify/recover_pk, Locator::new, consensus::{serialize,deserialize}; its "
    "hand-written RFC 8439 sealer and zbase32 encoder only build inputs (every blob/text they produce is recomputed by the extracted model)",
    "CRYPTOGRAPHIC ASSUMPTIONS (not proved, stated): Poly1305 one-time-MAC security with the ChaCha20-derived key (no tag forgery / collision), "
    "SHA-256 collision resistance (no two ids with one key), secp256k1 ECDSA unforgeability and the correctness of libsecp256k1's "
    "sign_ecdsa_recoverable / recover_ecdsa (not modelled: the model covers digest, container and text encoding only)",
    "modelled, validated by execution: rust-bitcoin 0.32.5 consensus (de)serialisation of Transaction (BtcCodec.v, incl. the 4,000,000-byte witness "
    "limits), chacha20poly1305 0.8 / RFC 8439, lightning 0.1.1 message_signing + zbase32",
]


def build_extraction_prereqs(ctx):
    """The driver is shared: every module named by a `Require:` line of extraction/parts/*.txt has to be compiled
    before Extract.v.  Failures of other slices' models are not obligations of this property; if they make the
    driver unbuildable, ocaml_build reports it."""
    mods = []
    for p in sorted(glob.glob(os.path.join(vlib.COQ, "extraction", "parts", "*.txt"))):
        for l in open(p):
            if l.startswith("Require:"):
                mods += l[len("Require:"):].split()
    vos = ["theories/" + m.replace(".", "/") + ".vo" for m in mods]
    with vlib.BuildLock():
        rc, out, dt = vlib.sh(["make", "-j16", "-k"] + vos, cwd=vlib.COQ, timeout=1500)
    ctx.log(f"coq: models required by the shared driver ({len(vos)} modules) -> rc={rc} in {dt:.1f}s")
    return rc == 0


def split_cases(path, nparts, workdir):
    """Round-robin split of the case file (lines are independent); returns part paths, sha1 set of the case parts."""
    outs = [open(os.path.join(workdir, f"part{i}.txt"), "w") for i in range(nparts)]
    seen = set()
    kinds = {}
    n = 0
    with open(path) as f:
        for l in f:
            outs[n % nparts].write(l)
            n += 1
            case = l.split(" OBS", 1)[0]
            seen.add(hashlib.sha1(case.encode()).digest())
            toks = case.split(" ", 2)
            k = toks[0] + (":" + toks[1] if toks[0] in ("CMUT", "CDES", "CSIGMUT") and len(toks) > 1 else "")
            kinds[k] = kinds.get(k, 0) + 1
    for o in outs:
        o.close()
    return [o.name for o in outs], len(seen), kinds, n


def run_driver(ctx, cases_path, label):
    """Runs the extracted model + monitor on a case file, NPARTS processes; returns (summed summary, fail lines)."""
    parts, distinct, kinds, nlines = split_cases(cases_path, NPARTS, ctx.work)
    procs = [subprocess.Popen([vlib.DRIVER, p], stdout=subprocess.PIPE, stderr=subprocess.STDOUT, text=True) for p in parts]
    total, fails, bad = {}, [], False
    for p in procs:
        try:
            out, _ = p.communicate(timeout=3000)
        except subprocess.TimeoutExpired:
            p.kill()
            out, bad = "", True
        summ = vlib.parse_summary(out).get("CR")
        fails += [l for l in out.splitlines() if l.startswith("FAIL")]
        if p.returncode != 0:
            bad = True
            ctx.notes.append("driver output: " + out[-400:])
        if summ:
            for k, v in summ.items():
                if isinstance(v, int):
                    total[k] = total.get(k, 0) + v
    if bad or sum(1 for _ in parts) == 0 or total.get("cases", 0) != nlines:
        ctx.broken.append({"kind": "correspondence", "what": f"driver failed or skipped lines on {label}",
                           "detail": f"lines={nlines} handled={total.get('cases', 0)}"})
        return None, fails, kinds, distinct
    total["distinct_cases"] = distinct
    ctx.log(f"{label}: {total}")
    return total, fails, kinds, distinct


def classify(fail_line):
    """Key identifying a failing case for known_findings matching."""
    what = fail_line.split(" what=", 1)[1].split(" case=", 1)[0] if " what=" in fail_line else "?"
    case = fail_line.split(" case=", 1)[1] if " case=" in fail_line else ""
    toks = case.split()
    kind = toks[0] if toks else "?"
    sub = toks[1] if kind in ("CMUT", "CDES", "CSIGMUT") and len(toks) > 1 else ""
    return {"kind": "crypto-monitor", "line_kind": kind, "mutation": sub, "what": what.split("=")[0].split("[")[0].strip()}


def run(ctx):
    thorough = ctx.tier == "thorough"
    ctx.translate()
    res = ctx.coq_build(TARGETS)
    ctx.coq_hygiene(TARGETS, res)
    if thorough and res.get("ok"):
        rc, out, dt = vlib.sh(["coqchk", "-o", "-silent", "-Q", "theories", "TeosModel", "TeosModel.Properties.C17"], cwd=vlib.COQ, timeout=2400)
        ctx.log(f"coqchk TeosModel.Properties.C17 -> rc={rc} in {dt:.1f}s")
        ctx.coverage["coqchk"] = "ok (Axioms: <none>)" if rc == 0 and "Axioms: <none>" in out else "FAILED"
        if rc != 0 or "Axioms: <none>" not in out:
            ctx.broken.append({"kind": "proof", "what": "coqchk rejects the cone of Properties/C17 or reports axioms", "detail": out[-800:]})
    build_extraction_prereqs(ctx)
    ok_h = ctx.cargo_build(["crypto"])
    ok_o = ctx.ocaml_build()
    cov = ctx.coverage
    cov["checker_cmd"] = "cd /verif/coq && make theories/Properties/C17.vo   (coqc 8.16.1, full .vo build)"
    cov["trusted_base"] = TRUSTED
    cov["what_is_theorem"] = [
        "C17_aead_roundtrip / C17_decrypt_encrypt: open k (seal k m) = Some m and decrypt (encrypt t k) k = Some t for ANY stream/tag/key-hash functions, "
        "every key/id, every message / well-formed transaction; C17_concrete_decrypt_encrypt for the SHA-256/ChaCha20/Poly1305 instance with the nonces read from the source",
        "C17_tx_codec_roundtrip: deserialize (serialize t) = t and deserialize (serialize t ++ extra) = Err(trailing) for every well-formed t, every non-empty extra; "
        "C17_tx_encode_injective; C17_compact_size_minimal; C17_tx_decode_canonical: deserialize p = t implies p = serialize t (the decoder accepts only "
        "canonical byte strings); hence C17_decrypt_only_encryptions: decrypt c k = Some t implies c = encrypt t k, byte for byte",
        "C17_tamper_needs_collision, C17_bitflip_needs_collision, C17_truncation_needs_forgery: a successful opening under another id / of a modified, truncated "
        "or extended blob exhibits an explicit key-hash collision, tag collision or tag forgery; C17_tag_flip_fails, C17_too_short_fails: unconditional rejection",
        "C17_locator_prefix (locator k = first LOCATOR_LEN = 16 bytes of k in serialisation order), C17_source_parameters (generated from the source)",
        "C17_zbase32_roundtrip (ALL byte strings), C17_sigrec_layout ((31 + rid) :: compact64, 104 characters)",
        "kernel-checked vectors: FIPS 180-4 SHA-256 (abc, empty, 448-bit), RFC 8439 2.3.2 / 2.5.2 / 2.8.2, lightning zbase32 vectors, the repository's HEX_TX/HEX_TXID/ENC_BLOB",
    ]
    cov["what_is_executed_evidence"] = [
        "the real encrypt/decrypt/serialize/deserialize/Locator::new/sign agree byte for byte with the extracted concrete model on every generated case",
        "every single-bit flip and every truncation of every generated blob, and every blob under every other generated id, is rejected by the real decrypt; "
        "bit-flipped / truncated / non-zbase32 signature texts, bit-flipped signature bytes, altered messages, other signers do not verify for the signer",
    ]
    ctx.assumptions += [
        "cryptographic assumption: Poly1305 (keyed by ChaCha20 block 0) admits no feasible tag forgery/collision; SHA-256 no feasible collision; "
        "ECDSA over secp256k1 is unforgeable — 'tampering fails' and 'no altered message verifies' rest on these and are observed, not proved",
        "tx_wf: field ranges of the Rust types (i32/u32/u64, 32-byte txids, lengths < 2^64) and rust-bitcoin's witness limits "
        "(<= 4,000,000 elements and <= 4,000,000 serialised bytes per input)",
        "a signature is identified by its 65-byte value: zbase32 decoding ignores letter case, so one value has several texts (counted as "
        "sig_text_aliases_accepted); ECDSA (r, n-s) malleability is outside the single-bit/truncation quantifier (counted as malleated_accepted)",
    ]
    if ok_h and ok_o:
        cases = os.path.join(ctx.work, "cases.txt")
        tiers = ["quick", "thorough"] if thorough else ["quick"]
        mon_fail_lines, corr_fail_lines = [], []
        total, kinds_total, distinct_total = None, {}, 0
        for t in tiers:
            rc, out, dt = vlib.sh([ctx.bin("crypto"), "run", cases],
                                  env={"VERIF_TIER": t, "VERIF_SEED": str(ctx.seed)}, timeout=3000)
            ctx.log(f"harness crypto[{t}] rc={rc} in {dt:.1f}s")
            if rc != 0:
                ctx.broken.append({"kind": "correspondence", "what": "crypto harness failed", "detail": out[-800:]})
                break
            summ, fails, kinds, distinct = run_driver(ctx, cases, f"crypto[{t}]")
            if summ is None:
                break
            mon_fail_lines += [f for f in fails if f.startswith("FAIL mon")]
            corr_fail_lines += [f for f in fails if not f.startswith("FAIL mon")]
            distinct_total += distinct
            for k, v in kinds.items():
                kinds_total[k] = kinds_total.get(k, 0) + v
            if total is None:
                total = dict(summ)
            else:
                for k, v in summ.items():
                    total[k] = total.get(k, 0) + v
            if t == "quick":
                rc2, out2, _ = vlib.sh(
                    f"(grep -m2 '^CTX' {cases}; grep -m1 '^CMUT flip' {cases}; grep -m1 '^CMUT ptrail' {cases}; "
                    f"grep -m1 '^CDES nowit' {cases}; grep -m1 '^CSIG ' {cases}; grep -m1 '^CSIGMUT charflip' {cases}) | cut -c1-900", timeout=60)
                cov["samples"] = [l for l in out2.splitlines() if l.strip()]
            # a broken tie in the quick tier widens the search to the thorough generator
            if (corr_fail_lines or ctx.broken) and not mon_fail_lines and t == "quick" and not thorough:
                tiers.append("thorough")
        if total:
            cov["evaluations"] = total["cases"]
            cov["distinct_nontrivial"] = distinct_total
            cov["traces_validated_against_impl"] = total["cases"]
            cov["case_kinds"] = dict(sorted(kinds_total.items()))
            for k in ("ctx", "cmut", "cdes", "csig", "csigmut", "tamper_cases_modelled", "flips_swept", "truncs_swept", "otherids_swept",
                      "sig_text_aliases_accepted", "sig_undecodable", "malleated", "malleated_accepted", "model_bytes_compared"):
                cov[k] = total.get(k, 0)
            if total.get("sig_text_aliases_accepted", 0) > 0:
                # an altered signature TEXT (letter case changed) that still verifies: against the letter of the property
                ctx.add_violation("a signature text with the case of a letter changed decodes to the same 65 bytes and verifies for the signer "
                                  f"({total['sig_text_aliases_accepted']} such mutations accepted)",
                                  {"kind": "crypto-observation", "what": "zbase32 letter case ignored by lightning::util::zbase32 decoding",
                                   "example": "sk=1 msg='test message' sig='D9tibmnic9t5y41hg7hkakdcra94akas9ku3rmmj4ag9mritc8ok4p5qzefs78c9pqfhpuftqqzhydbdwfg7u6w6wdxcqpqn4sj4e73e' (first letter upper-cased) verifies"},
                                  {"kind": "sig-text-case-alias"})
            cov["exhaustive"] = True
            cov["rule"] = (
                "CTX: random transactions (0-4 inputs/outputs, legacy and BIP-144, witness stacks with element sizes {0,1,32,33,71-73,252,253,300}, "
                "script sizes {0,1,22-35,70-74,252,253,254-256,<600}, edge values of version/locktime/sequence/vout/value, serialised sizes pinned to "
                "47-49,63-65,127-129,2031-2033,2047-2049 (thorough: also 255-257,1023-1025,4079-4081,4095-4097,6128,8176)) under ids incl. all-zero, all-ff, "
                "same-locator pairs, one-bit-apart pairs, byte-reversed pairs; per case: serialisation, ciphertext, decrypt result and locator compared byte for byte "
                "with the extracted model, and on the implementation EVERY single-bit flip (sampled above 700 bytes in the quick tier), EVERY truncation and EVERY other id "
                "of the generated set (exhaustive = these finite sweeps). CMUT: sampled flips/truncations/extensions/other ids and reference-sealed blobs over "
                "non-canonical plaintexts (trailing bytes, non-minimal count, BIP-144 form without witness) run through model and implementation. CDES: codec "
                "alone on trailing bytes, non-minimal compact sizes, flag/marker changes, cuts, bit flips, witness limits, huge lengths, random bytes. "
                "CSIG/CSIGMUT: sign/recover/verify with generated keys; character bit flips, truncations, non-alphabet characters, byte flips of the 65-byte "
                "value, altered messages, other signer, near public key. distinct = distinct case texts (sha1); every case is non-trivial by construction "
                "(a generated transaction or one mutation)")
        if corr_fail_lines:
            ctx.broken.append({"kind": "correspondence", "what": "model and implementation disagree (cryptography / codec observations)",
                               "first": corr_fail_lines[0][:1500], "count": len(corr_fail_lines)})
        # one violation per class of failure; the shortest failing case of the class stands for it
        by_key = {}
        for f in mon_fail_lines:
            ks = json.dumps(classify(f), sort_keys=True)
            if ks not in by_key or len(f) < len(by_key[ks]):
                by_key[ks] = f
        for f in sorted(by_key.values(), key=len):
            key = classify(f)
            case = f.split(" case=", 1)[1] if " case=" in f else f
            detail = f.split(" case=")[0]
            ctx.add_violation("C17 monitor false on the implementation: " + detail[:300],
                              {"kind": "crypto", "case": case.strip(), "detail": detail[:600]}, key)
    return ctx.finish("proof")


def replay(ctx, path):
    obj = json.load(open(path))["replay"]
    if obj.get("kind") != "crypto":
        print(json.dumps(obj, indent=1))
        return 1
    ctx.coq_build(TARGETS)
    build_extraction_prereqs(ctx)
    if not (ctx.cargo_build(["crypto"]) and ctx.ocaml_build()):
        return 2
    cf = os.path.join(ctx.work, "replay_case.txt")
    open(cf, "w").write(obj["case"] + " OBS\n")
    out_f = os.path.join(ctx.work, "replay_out.txt")
    vlib.sh([ctx.bin("crypto"), "replay", cf, out_f])
    rc, out, _ = vlib.sh([vlib.DRIVER, out_f])
    print(out)
    return 1 if "FAIL mon" in out else 0
