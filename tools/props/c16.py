"""C16 — client and tower agree on every byte of the wire format."""
import glob
import json
import os
import re
import shutil
import vlib

TARGETS = ["theories/Properties/C16.v"]
TRUSTED = [
    "Coq 8.16.1 kernel (coqc; vm_compute for the 256-value byte sweeps, the table side conditions and the Examples); no axioms "
    "(Print Assumptions: closed under the global context for all 24 theorems)",
    "tools/translate_wire.py (ours): reads teos-common/build.rs (every type_/field_attribute, prost-build 0.12 path matching), the proto files, "
    "ser.rs (serde_be / serde_vec_bytes / serde_status pinned to the shape the model's codecs follow), the AppointmentStatus tables, the three to_vec "
    "bodies + Locator/UserId widths, router/handlers/match_status/ApiError of teos/src/api/http.rs, PublicTowerServices, the plugin's ApiResponse<T>/ApiError "
    "and how each of the four replies is decoded, the signed request messages on both sides; any other shape is a TranslateError",
    "level: JSON VALUES. Trusted, observed by execution only: serde_json's parser (text -> value) on both sides [its printer is modelled by json_print "
    "and compared byte for byte], serde_derive's generated (de)serialisers as modelled in Wire.v (struct map/seq form, duplicate / missing / unknown "
    "keys, Option fields, flatten + untagged, untagged ApiResponse) [validated on mutated inputs against the real derive], hex 0.4.3, prost field mapping, "
    "HTTP framing (reqwest/hyper/warp), the gRPC hop behind the router (tonic), warp's content_length_limit",
    "coq/extraction/drv_wire.ml (ours): case parsing, a small JSON text parser used to compare values, the monitor's independent spellings (lower-case hex, "
    "byte reversal); extraction with ExtrOcamlBasic only",
    "harness/src/bin/wire (ours): the recording PublicTowerServices implementation, the byte-recording TCP relay, the case generators; the two replies "
    "the plugin decodes only in its main.rs (get_appointment, get_subscription_info) are decoded by the same expression with the type the translator "
    "read from main.rs",
    "handler field checks of teos/src/api/http.rs (empty / wrong size / missing) are hand-modelled in WireApi.v and validated by the correspondence run",
    "not exercised: an internal-API status message containing '%' (tonic 0.11 does not escape it in the grpc-message header of the internal gRPC hop, "
    "so '%xx' inside a message is altered before the HTTP layer sees it; the tower's messages are fixed ASCII sentences without it); empty request bodies "
    "(no Content-Length: warp's 411, C15); JSON numbers with fraction/exponent or beyond 62 bits (outside the model's value type)",
]


def wrapped_flags(ctx):
    """ep_client_wrapped of the four endpoints, from the generated table."""
    try:
        src = open(os.path.join(vlib.COQ, "theories", "Gen", "WireSpec.v")).read()
    except OSError:
        return None
    flags = ""
    for ep in ("register", "add_appointment", "get_appointment", "get_subscription_info"):
        m = re.search(r"Definition W_EP_" + ep + r" .*?w_ep_client_wrapped := (true|false)", src)
        if not m:
            return None
        flags += "1" if m.group(1) == "true" else "0"
    return flags


def cert_env(ctx):
    """reqwest::Client::new() (the plugin builds one per request) loads the system CA bundle every time
    (~60 ms); TLS is never used here (http://127.0.0.1), so point OpenSSL at a one-certificate store."""
    dst = os.path.join(ctx.work, "onecert.pem")
    if not os.path.exists(dst):
        for cand in sorted(glob.glob("/etc/ssl/certs/*.pem")) + sorted(glob.glob("/etc/ssl/certs/*.crt")):
            try:
                txt = open(cand).read()
            except OSError:
                continue
            m = re.search(r"-----BEGIN CERTIFICATE-----.*?-----END CERTIFICATE-----", txt, re.S)
            if m:
                open(dst, "w").write(m.group(0) + "\n")
                break
    if os.path.exists(dst):
        return {"SSL_CERT_FILE": dst, "SSL_CERT_DIR": os.path.join(ctx.work, "no-such-dir")}
    return {}


def classify(fail_line):
    m = re.search(r"what=(\S+)", fail_line)
    return {"kind": m.group(1) if m else "?"}


def run_harness(ctx, tier, flags, shards):
    """Runs the harness (in `shards` parallel slices) and the driver; returns (summaries, fail lines) or None."""
    import subprocess
    env = dict(os.environ)
    env.update(cert_env(ctx))
    env.update({"VERIF_TIER": tier, "VERIF_SEED": str(ctx.seed)})
    procs = []
    files = []
    for i in range(shards):
        out = os.path.join(ctx.work, f"cases-{tier}-{i}.txt")
        files.append(out)
        e = dict(env)
        e["VERIF_WIRE_SHARD"] = f"{i}/{shards}"
        procs.append(subprocess.Popen([ctx.bin("wire"), "run", out, flags], env=e, stdout=subprocess.PIPE, stderr=subprocess.STDOUT, text=True))
    ok = True
    for p in procs:
        try:
            o, _ = p.communicate(timeout=2400)
        except subprocess.TimeoutExpired:
            p.kill()
            o = "[timeout]"
        if p.returncode != 0:
            ok = False
            ctx.broken.append({"kind": "correspondence", "what": "wire harness failed", "detail": (o or "")[-800:]})
    if not ok:
        return None
    summaries, fails = [], []
    dprocs = [subprocess.Popen([vlib.DRIVER, f], stdout=subprocess.PIPE, stderr=subprocess.STDOUT, text=True, errors="replace") for f in files]
    for f, p in zip(files, dprocs):
        try:
            out, _ = p.communicate(timeout=2400)
        except subprocess.TimeoutExpired:
            p.kill()
            out = "[timeout]"
        summ = vlib.parse_summary(out).get("WIRE")
        if p.returncode != 0 or summ is None:
            ctx.broken.append({"kind": "correspondence", "what": f"driver failed on {os.path.basename(f)}", "detail": out[-800:]})
            return None
        summaries.append(summ)
        fails += [l for l in out.splitlines() if l.startswith("FAIL")]
    return summaries, fails, files


def run(ctx):
    thorough = ctx.tier == "thorough"
    ctx.translate()
    res = ctx.coq_build(TARGETS)
    ctx.coq_hygiene(TARGETS, res)
    ok_h = ctx.cargo_build(["wire"])
    ok_o = ctx.ocaml_build()
    cov = ctx.coverage
    cov["checker_cmd"] = "cd /verif/coq && make theories/Properties/C16.vo   (coqc 8.16.1, full .vo build)"
    cov["trusted_base"] = TRUSTED
    ctx.assumptions += [
        "values are those the Rust types can hold: bytes < 256, u32 fields < 2^32, u8 error codes < 256, strings are UTF-8; a status field holds one of "
        "the three discriminants (serde_status collapses any other i32 to not_found: Example C16_ex_status_outside_enum)",
        "requests the client can build: 33-byte user id, 16-byte locator, non-empty signature (other shapes are refused by the handlers' field checks, "
        "modelled and compared, but not demanded by the monitor)",
        "C16_within_limit counts the bytes of the request body (= Content-Length, what content_length_limit compares), for a 16-byte locator and a "
        "104-character zbase32 signature",
        "the error-reply theorems need TowerApiError = ClientApiError field for field (decided by computation on the generated tables)",
    ]
    flags = wrapped_flags(ctx)
    if flags is None:
        ctx.broken.append({"kind": "translator", "what": "Gen/WireSpec.v has no usable endpoint table"})
    if ok_h and ok_o and flags is not None:
        tiers = [("thorough", 12)] if thorough else [("quick", 2)]
        totals = {}
        mon_lines, known_lines, corr_lines = [], [], []
        sample_file = None
        while tiers:
            tier, shards = tiers.pop(0)
            r = run_harness(ctx, tier, flags, shards)
            if r is None:
                break
            summaries, fails, files = r
            sample_file = sample_file or files[0]
            for s in summaries:
                for k, v in s.items():
                    if isinstance(v, int):
                        totals[k] = totals.get(k, 0) + v
            ctx.log(f"wire[{tier}]: " + " ".join(f"{k}={totals[k]}" for k in sorted(totals)))
            for f in fails:
                if f.startswith("FAIL mon"):
                    (known_lines if "what=error-reply-undecoded" in f else mon_lines).append(f)
                else:
                    corr_lines.append(f)
            # a broken tie in the quick tier widens the search to the thorough generator
            if (corr_lines or ctx.broken) and not mon_lines and tier == "quick":
                tiers.append(("thorough", 12))
        if totals:
            cov["evaluations"] = totals.get("cases", 0)
            cov["distinct_nontrivial"] = totals.get("distinct_nontrivial", 0)
            cov["traces_validated_against_impl"] = totals.get("cases", 0) - totals.get("skipped", 0)
            for k in ("http", "http_full_exchanges", "http_fn_mode", "http_ok_replies", "http_error_replies", "http_rejected", "http_too_large", "raw",
                      "pure", "skipped", "known_error_reply_undecoded"):
                cov[k] = totals.get(k, 0)
            cov["exhaustive"] = False
            cov["rule"] = (
                "HTTP exchanges through the real halves (plugin client code -> byte-recording relay -> warp router -> gRPC -> recording internal API and back): "
                "all four endpoints; post mode = the plugin's process_post_response(post_request(..)) expression with the plugin's reply type, fn mode = "
                "register() / send_appointment() with real keys and signatures; requests: valid and invalid user-id / locator widths, blobs 0..4000 bytes with "
                "a byte-by-byte sweep of the add_appointment cap (905..918 bytes x 1-, 3-, 10-digit delays), u32 edges {0,1,9,10,255,256,2^31-1,2^31,2^32-1} + random, "
                "signature strings: real zbase32 (104), 1-3 chars, 200-600 chars, quotes/backslashes/control characters, 2-4 byte UTF-8; scripted replies: every "
                "reply type with all-edge u32s, every status x every AppointmentData shape (absent, empty, appointment, tracker), txids with distinct first/last "
                "bytes and odd widths, 0..70 locators, every tonic code 1..16 with varied messages. Raw bodies posted to the router (mutated JSON: dropped / "
                "repeated / unknown / reordered keys, wrong types, array form, odd and upper-case hex, out-of-range numbers, over-long bodies). Pure: hex and "
                "serde_be encode/decode, the three to_vec layouts on u32 edges, the signed request message, serde_json::to_vec + from_slice of every message "
                "type, from_slice of every message type and of the client's reply types on mutated inputs. distinct = distinct case lines; non-trivial = a "
                "complete exchange (request forwarded and reply decoded as Response or Error) or a pure case with an accepted input")
            if sample_file:
                samples = []
                for pat in ("^WHTTP add_appointment post", "^WHTTP get_appointment post .* REPLY OK S V1", "^WHTTP register fn", "^WVEC A", "^WPARSE"):
                    rc2, out2, _ = vlib.sh(f"grep -m1 -E '{pat}' {sample_file} | cut -c1-700", timeout=60)
                    if out2.strip():
                        samples.append(out2.strip())
                cov["samples"] = samples
        if corr_lines:
            ctx.broken.append({"kind": "correspondence", "what": "the wire model (following the generated tables) and the implementation disagree",
                               "first": corr_lines[0][:1500], "count": len(corr_lines)})
        seen = set()
        # the most telling failing input first: a complete exchange, then a serialisation, then the rest
        rank = lambda f: 0 if "case=WHTTP" in f else 1 if "case=WSER" in f else 2
        mon_lines.sort(key=rank)
        for f in mon_lines + known_lines:
            key = classify(f)
            if key["kind"] in seen:
                continue
            seen.add(key["kind"])
            case = f.split(" case=", 1)[1].strip() if " case=" in f else ""
            ctx.add_violation("wire format: " + f.split(" case=")[0][:600], {"kind": "wire", "case": case, "flags": flags,
                                                                              "detail": f.split(" case=")[0][:1500]}, key)
        if known_lines:
            ctx.notes.append(f"{len(known_lines)} printed / {totals.get('known_error_reply_undecoded', 0)} counted exchanges where the tower's error object reached the "
                             "client as RequestError::DeserializeError (register / get_subscription_info decode the reply without ApiResponse<T>)")
    return ctx.finish("proof")


def replay(ctx, path):
    obj = json.load(open(path))["replay"]
    if obj.get("kind") != "wire":
        print(json.dumps(obj, indent=1))
        return 1
    if not (ctx.cargo_build(["wire"]) and ctx.ocaml_build()):
        return 2
    flags = wrapped_flags(ctx) or obj.get("flags", "0110")
    cf = os.path.join(ctx.work, "replay_case.txt")
    open(cf, "w").write(obj["case"] + " OBS\n")
    out_f = os.path.join(ctx.work, "replay_out.txt")
    env = cert_env(ctx)
    rc, out, _ = vlib.sh([ctx.bin("wire"), "replay", cf, out_f, flags], env=env, timeout=600)
    if rc != 0:
        print(out)
        return 2
    rc, out, _ = vlib.sh([vlib.DRIVER, out_f])
    print(open(out_f).read()[:3000])
    print(out)
    return 1 if "FAIL mon" in out else 0
