"""C09 — decided on the sequential tower model (see tools/tower_common.py, DESIGN.md section 5)."""
import tower_common
from props import c03

TARGETS = ["theories/Properties/C09.v", "theories/Properties/C09_restart.v"]
MON = {"C09"}
KNOWN = {}


def run(ctx):
    def extra(ctx):
        # expiry / purge heights across a restart: the crash harness's expiry, purge and boundary-configuration histories
        # (templates 3-6: short subscription with renewal in the grace period; duration 0 / grace 0 variants)
        c03.crash_probe(ctx, "C09", {3, 4, 5, 6})
    return tower_common.check(ctx, "C09", TARGETS, MON, KNOWN, extra_run=extra)


def replay(ctx, path):
    import json
    if json.load(open(path))["replay"].get("kind") == "crash-run":
        return c03.replay(ctx, path)
    return tower_common.replay(ctx, path)
