"""C14 — the client trusts a tower only on valid signatures and survives any reply."""
import clientflow_common as cf

TARGETS = ["theories/Properties/C14.v"]
RULE = ("same scenario run as C05 (families 1-20 + random). Reply bodies: add_appointment {accept, signature of another key, undecodable "
        "signature, API error 7, other API error, non-JSON, JSON of another shape, right keys with wrong types, empty body, 1 MB body, "
        "connection closed without answer, connection refused}; register {good, signature of another key, same expiry, later expiry "
        "without more slots, non-JSON, API error, connection refused} - each on the notification path (families 2, 9) and on the retry "
        "path (families 8, 10, 18). Monitor C14 on the implementation: every stored registration receipt verifies; every NEW registration "
        "row comes from a verifying reply logged in that window and strictly extends expiry and slots of what was stored; registertower "
        "stores iff the reply verifies and strictly extends, and answers accordingly; a wrong-key acknowledgement => proof row + status "
        "misbehaving at the next settle point, and no request reaches that tower in any later window; the plugin answers listtowers after "
        "every step and no RPC / hook call times out; a stored misbehaviour proof is backed by the offending receipt: the receipt stored for "
        "(tower, proof.locator) recovers to proof.recovered_id, a key other than the tower's (family 30: the plugin is killed between the two "
        "writes of a pending -> accepted move - the database sampler pulls the trigger while it holds its read transaction -, the tower then "
        "signs with another key and the restarted plugin sends the appointment again). Non-JSON bodies include an HTML error page of "
        "three-byte characters, longer than 256 bytes, in three alignments (every byte offset is inside a character in two of them), on "
        "register and add_appointment, notification and retry path")
ASSUME = [
    "signature validity is decided by teos_common (harness side) on the stored strings: class 1 verifies under the tower id, 2 recovers to "
    "the other key, 3 undecodable; ECDSA unforgeability is assumed, not proved",
    "a wrong-key reply logged by the tower in the window of a KILL may not have been processed: flagging is demanded only when no KILL intervenes",
]


def run(ctx):
    return cf.run_property(ctx, "C14", TARGETS, RULE, ASSUME)


def replay(ctx, path):
    return cf.replay(ctx, path, "C14")
