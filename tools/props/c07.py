"""C07 — decided on the sequential tower model (see tools/tower_common.py, DESIGN.md section 5)."""
import tower_common

TARGETS = ["theories/Properties/C07.v"]
MON = {"C07"}
KNOWN = {}


def run(ctx):
    return tower_common.check(ctx, "C07", TARGETS, MON, KNOWN)


def replay(ctx, path):
    return tower_common.replay(ctx, path)
