"""C07 — slot accounting: tower model (memory = disk = wire, conservation monitor) + the f32 slot formula (slots_check)."""
import slots_check
import tower_common
from props import c03, c10

TARGETS = ["theories/Properties/C07.v", "theories/Properties/C07_ledger.v", "theories/Properties/C07_restart.v"] + slots_check.SLOTS_TARGETS
MON = {"C07"}
KNOWN = {"C107": {"kind": "balance-above-u32-max"}}


def run(ctx):
    def extra(ctx):
        # the clause 'never less than one' is decided at the HTTP boundary (C07_empty_blob_refused_at_http);
        # the pure function still returns 0 for n = 0 (theorem C07_slots_ge_one_refuted)
        slots_check.run_slots(ctx, report_zero_blob=False)
        # concurrent registrations / charges / refunds of one user: no slot update may be lost (controlled schedules on
        # the real tower; the recorded double charge of two identical submissions is C10's known finding)
        c10.conc_probe(ctx, "C07", {"ledger"}, case_filter=("reg", "add"))
        # memory = disk also across a RESTART (what Gatekeeper::new reloads): the sequential tower histories have no
        # restart, the crash harness does.  A crash run whose appointments and trackers end as in the uninterrupted run
        # but whose users table (balances) does not, or that grants / charges more than the interrupted request, is
        # reported here unless it is a recorded C03 finding
        c03.crash_probe(ctx, "C07", None,
                        only=lambda kind, detail: kind in c03.BALANCE_KINDS or detail.startswith("final-users-differ"))
    return tower_common.check(ctx, "C07", TARGETS, MON, KNOWN, allow_axioms=slots_check.SLOTS_AXIOMS,
                              extra_trusted=slots_check.SLOTS_TRUSTED, extra_run=extra)


def replay(ctx, path):
    import json
    obj = json.load(open(path))["replay"]
    if obj.get("kind") == "slots":
        return slots_check.replay_slots(ctx, obj)
    if obj.get("kind") == "crash-run":
        return c03.replay(ctx, path)
    return tower_common.replay(ctx, path)
