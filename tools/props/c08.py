"""C08 — decided on the sequential tower model (see tools/tower_common.py, DESIGN.md section 5)."""
import tower_common

TARGETS = ["theories/Properties/C08.v"]
MON = {"C08"}
KNOWN = {}


def run(ctx):
    return tower_common.check(ctx, "C08", TARGETS, MON, KNOWN)


def replay(ctx, path):
    return tower_common.replay(ctx, path)
