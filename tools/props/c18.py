"""C18 — client store consistent, reloadable; abandon deletes exactly one tower."""
import json
import os
import re
import subprocess

import vlib
from props import client_common

TARGETS = ["theories/Properties/C18.v"]
TRUSTED = [
    "Coq 8.16.1 kernel (coqc; vm_compute for the Examples/witnesses); no axioms (Print Assumptions: closed under the global context)",
    "tools/translate_schema.py: tables, primary keys, foreign keys and ON DELETE actions read from the TABLES SQL of "
    "watchtower-plugin/src/dbm.rs (Gen/SchemaClient.v); TowerStatus and its predicates from lib.rs (Gen/TowerStatus.v)",
    "extraction with ExtrOcamlBasic only + coq/extraction/driver*.ml, drv_client_store.ml (parsing, comparison, "
    "rebuilding a model-level state from the implementation's observation for the Coq-defined monitors)",
    "harness/src/bin/client_store: drives the real watchtower_plugin::wt_client::WTClient and dbm::DBM (public API, real "
    "SQLite file, real keys/receipts signed with teos_common) and reads the eight tables through a second connection; "
    "PRAGMA synchronous=OFF / journal_mode=MEMORY on the harness's connections (durability is not examined here)",
    "modelled, not verified: SQLite (constraints, cascade, statement/transaction atomicity) as Db.v; HashMap/HashSet as "
    "association lists / duplicate-free lists; ids for keys, signatures, blobs, addresses",
]
NPROC = 16


def pipelines(ctx, tier, extra_env=None, budget=3000):
    """client_store slice k/N | driver -   for k in 0..N-1; returns (summary dict, fail lines, ok)"""
    scratch = os.path.join(ctx.work, "dbs")
    os.makedirs(scratch, exist_ok=True)
    env = dict(os.environ)
    env.update({"VERIF_TIER": tier, "VERIF_SEED": str(ctx.seed)})
    if extra_env:
        env.update(extra_env)
    procs = []
    for k in range(NPROC):
        cmd = f"set -o pipefail; timeout {budget} {ctx.bin('client_store')} slice {k} {NPROC} {scratch} | timeout {budget} {vlib.DRIVER} -"
        procs.append(subprocess.Popen(["bash", "-c", cmd], stdout=subprocess.PIPE, stderr=subprocess.STDOUT, text=True, env=env))
    total, fails, ok = {}, [], True
    for k, p in enumerate(procs):
        out, _ = p.communicate()
        if p.returncode == 124 and budget < 3000:
            ctx.notes.append(f"widened search: pipeline {k} stopped after its {budget} s budget")
            fails += [l for l in out.splitlines() if l.startswith("FAIL")]
            continue
        if p.returncode != 0:
            ok = False
            ctx.broken.append({"kind": "correspondence", "what": f"client_store pipeline {k} failed (rc={p.returncode})", "detail": out[-800:]})
            continue
        s = vlib.parse_summary(out).get("CS")
        if s is None:
            ok = False
            ctx.broken.append({"kind": "correspondence", "what": f"client_store pipeline {k}: no summary", "detail": out[-800:]})
            continue
        for a, b in s.items():
            if isinstance(b, int):
                total[a] = total.get(a, 0) + b
        fails += [l for l in out.splitlines() if l.startswith("FAIL")]
    return total, fails, ok


def classify(fail_line):
    m = re.search(r"check=(\S+) op=(\S+) site=(\S+)", fail_line)
    if not m:
        return {"check": "?"}
    check, op, site = m.groups()
    if check == "abort":
        return {"check": "abort", "site": site}
    return {"check": check, "op": op}


def run(ctx):
    thorough = ctx.tier == "thorough"
    client_common.repo_override(ctx)
    ctx.translate()
    res = ctx.coq_build(TARGETS + client_common.extraction_targets())
    ctx.coq_hygiene(TARGETS, res)
    ok_h = ctx.cargo_build(["client_store"])
    ok_o = ctx.ocaml_build()
    cov = ctx.coverage
    cov["checker_cmd"] = "cd /verif/coq && make theories/Properties/C18.vo   (coqc 8.16.1, full .vo build)"
    cov["trusted_base"] = TRUSTED
    ctx.assumptions += [
        "memory = disk is stated for `held` sequences: remove_pending_appointment (alone or as the second half of a move) "
        "is applied to a (tower, locator) that is a pending row — the only way the plugin calls it; without it the "
        "statement is refuted (C18_refcount_wrong_when_not_held_refuted)",
        "SQLite implements Db.v's statement semantics; each statement/transaction is atomic",
    ]
    if ok_h and ok_o:
        tiers = ["thorough"] if thorough else ["quick"]
        total, mon, corr = {}, [], []
        for t in tiers:
            s, fails, ok = pipelines(ctx, t, budget=(600 if (t == "thorough" and not thorough) else 3000))
            ctx.log(f"client_store[{t}]: {s}")
            for a, b in s.items():
                total[a] = total.get(a, 0) + b
            mon += [f for f in fails if f.startswith("FAIL mon")]
            corr += [f for f in fails if not f.startswith("FAIL mon")]
            unknown_mon = [f for f in mon if vlib.match_known(ctx.known, {"key": classify(f)}) is None]
            # a broken tie in the quick tier widens the search to the thorough generator
            if (corr or ctx.broken) and not unknown_mon and t == "quick":
                tiers.append("thorough")
        if total:
            cov["evaluations"] = total.get("cases", 0)
            cov["steps"] = total.get("steps", 0)
            cov["observations_compared"] = total.get("observations", 0)
            cov["distinct_nontrivial"] = total.get("distinct_nontrivial", 0)
            cov["traces_validated_against_impl"] = total.get("cases", 0)
            cov["exhaustive_small_scope_cases"] = total.get("exhaustive_cases", 0)
            cov["held_cases_monitored"] = total.get("held_cases", 0)
            cov["unheld_cases_correspondence_only_for_memory"] = total.get("unheld_cases", 0)
            cov["aborts_agreed_model_impl"] = total.get("aborts_agreed", 0)
            cov["reloads_checked"] = total.get("reloads", 0)
            cov["abandons_checked"] = total.get("abandons_checked", 0)
            cov["releases_checked"] = total.get("releases_checked", 0)
            cov["exhaustive"] = True
            cov["rule"] = (
                "exhaustive: every sequence (towers and locators named in order of first use) of length <= L from the empty store and of "
                "length <= L2 after two registrations, over 2 towers x 2 locators and the alphabet {register extending / not extending, "
                "receipt, pending, invalid, pending->accepted, pending->invalid, misbehaviour proof, abandon, restart} (quick L=4, L2=3; "
                "thorough L=5, L2=4): result of every operation compared, full observation + a restart next to the running client after the "
                "last operation (and before it when it is an abandon / removal / move). random: sequences of 8-40 operations over 3 towers x "
                "4 locators incl. remove_pending, set_status, varied renewals, fully observed and restarted after EVERY operation. "
                "observation = towers (memory), load_towers, towers of a WTClient restarted on the same file + what it hands to the retry "
                "manager, load_tower_record and both locator readers per tower, raw rows of the eight tables, panic flag. "
                "distinct = distinct operation sequences; non-trivial = an appointment-level operation or an abandon executed on a registered tower")
            sc, so, _ = vlib.sh(f"CS_LMAX=0 CS_L2=0 CS_NRAND=3 {ctx.bin('client_store')} slice 0 1 {os.path.join(ctx.work, 'dbs')} | cut -c1-700", timeout=120)
            cov["samples"] = [l for l in so.splitlines() if l.startswith("CS ")][:3]
            cov["samples"] += [f.split("case=", 1)[1].strip()[:400] for f in mon[:2] if "case=" in f]
        if corr:
            ctx.broken.append({"kind": "correspondence", "what": "model and implementation disagree on the client store",
                               "first": corr[0][:2000], "count": len(corr)})
        seen = set()
        for f in sorted(mon, key=len):
            key = classify(f)
            kk = json.dumps(key, sort_keys=True)
            if kk in seen:
                continue
            seen.add(kk)
            case = f.split("case=", 1)[1].strip() if "case=" in f else f
            ctx.add_violation("C18 monitor false on the real WTClient/DBM: " + f.split(" case=")[0],
                              {"kind": "client_store", "case": case, "detail": f.split(" case=")[0]}, key)
    return ctx.finish("proof")


def replay(ctx, path):
    obj = json.load(open(path))["replay"]
    if obj.get("kind") != "client_store":
        print(json.dumps(obj, indent=1))
        return 1
    client_common.repo_override(ctx)
    if not (ctx.cargo_build(["client_store"]) and ctx.ocaml_build()):
        return 2
    cf = os.path.join(ctx.work, "replay_case.txt")
    open(cf, "w").write(obj["case"] + " OBS\n")
    out_f = os.path.join(ctx.work, "replay_out.txt")
    vlib.sh([ctx.bin("client_store"), "replay", cf, out_f, os.path.join(ctx.work, "dbs")])
    rc, out, _ = vlib.sh([vlib.DRIVER, out_f])
    print(out)
    return 1 if "FAIL mon" in out else 0
