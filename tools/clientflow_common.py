"""Shared check logic of C05, C14 and C13: ONE process-level run of the real plugin binary
(`watchtower-client`, built from the CURRENT working tree of the repository) against scripted fake towers
(harness/src/bin/client_proc), the extracted model ClientFlow.v next to it (trace inclusion at the quiescent
points, coq/extraction/drv_client_proc.ml) and the extracted monitors ClientMon.mon_c05 / mon_c14 / mon_c13 on the
implementation's observations.  The harness output is cached per (repository sources, harness source, seed,
tier) under .build/cpcache so that the three properties share one run."""
import fcntl
import glob
import hashlib
import json
import os
import re
import shutil

import vlib
from props import client_common

NAMES = {
    501: "a (tower, locator) the client was notified of has no record at all (neither receipt, pending nor invalid)",
    502: "a (tower, locator) has more than one record at a settle point",
    503: "the database sampler read an intermediate durable state in which a (tower, locator) that had a record has none, the tower's row still there",
    1401: "a registration was stored that must not be (receipt does not verify or does not strictly extend)",
    1402: "a verifying, strictly extending registration was not stored (or registertower's answer disagrees with the store)",
    1403: "a stored registration receipt does not verify under the tower id",
    1404: "a stored registration does not come from a verifying reply that strictly extends expiry and slots",
    1405: "a tower answered with a signature of another key and is not flagged (proof + misbehaving) at the next settle point, "
          "or a tower whose proof is stored is not shown misbehaving (e.g. after a restart)",
    1406: "a request reached a tower after its misbehaviour proof was stored",
    1407: "the plugin stopped answering (crashed or wedged handler)",
    1408: "a stored misbehaviour proof is not self-consistent: the receipt stored for (tower, proof.locator) does not recover to "
          "proof.recovered_id, a key other than the tower's (the persisted proof proves nothing)",
    1301: "two retry loops for one tower (duplicate sends of one locator within 200 ms)",
    1302: "requests flood a failing tower (no back-off)",
    1303: "pending data not delivered / tower not shown reachable within max-retry + auto-retry + slack after recovery "
          "(also: after an accepted retrytower / a new revocation for a healthy tower left in `subscription error`; "
          "detail 3: registertower alone turned a tower with undelivered data - subscription error / unreachable / misbehaving - into `reachable`)",
    1304: "a tower that keeps failing (down, garbage, or subscription error with a transiently failing renewal) is not shown "
          "unreachable after max-retry + slack",
    1305: "retrytower accepted / refused against the documented states",
    1306: "a tower is still shown temporary_unreachable (being retried) long after any retry loop must have ended",
}

TRUSTED = [
    "Coq 8.16.1 kernel (coqc; vm_compute for the Examples and refutation witnesses); Print Assumptions re-run on each check",
    "tools/translate_schema.py: the plugin's SQL schema (tables, keys, cascades) and TowerStatus with its predicates, regenerated from "
    "watchtower-plugin/src/{dbm,lib}.rs into Gen/SchemaClient.v / Gen/TowerStatus.v on every run",
    "ClientFlow.v is hand-written after main.rs / retrier.rs / wt_client.rs / net/http.rs; its tie to the code is the differential run below",
    "extraction with ExtrOcamlBasic only; coq/extraction/driver_util.ml, drv_client_proc.ml (parsing, candidate-set search = trace "
    "inclusion with the towers' request logs as oracle, canonical comparison, conversion of observations for the Coq monitors)",
    "harness/src/bin/client_proc: spawns the real watchtower-client binary, speaks the CLN plugin protocol on stdin/stdout, hosts the fake "
    "towers (raw TCP HTTP servers signing with teos_common), SIGKILLs / restarts the process, reads the SQLite file through a second "
    "read-only connection in one transaction",
    "modelled, not verified: SQLite (Db.v: constraints, cascades, statement/transaction atomicity and durability), reqwest/serde "
    "(reply classes as net/http.rs tells them apart, validated by execution for every class), the backoff crate's schedule and tokio's "
    "scheduling (abstracted to 'another attempt happens' / 'max elapsed time exhausted'; measured, not proved), std Mutex poisoning, "
    "signatures (ids: verifies / recovers to another id / undecodable), HashMap / HashSet iteration order (order of the request log per "
    "tower is taken from the implementation)",
]


def parse_case(case):
    toks = case.split()
    if not toks or toks[0] != "CPCASE":
        return None
    v = [int(x) for x in toks[1:]]
    n = v[5]
    return {"family": v[0], "nt": v[1], "opts": v[2:5], "steps": [tuple(v[6 + 3 * i: 9 + 3 * i]) for i in range(n)]}


def pattern_flags(case):
    """op patterns of a scenario that known_findings entries refer to"""
    c = parse_case(case)
    flags = {"rereg_after_abandon": False, "reg_known_down": False, "reg_down_after_wrongkey": False, "refused_renewal": False}
    if not c:
        return flags
    up, registered, abandoned, wrongkey = {}, set(), set(), set()
    suberr, refusing = set(), set()
    for k, a, b in c["steps"]:
        # a tower that answers `subscription error` and whose renewals are refused for good (bad signature, not extending, foreign user)
        if k == 2 and b == 3:
            suberr.add(a)
        if (k == 2 and b - 100 in (1, 2, 5, 6, 7)) or (k == 1 and b in (1, 2, 5, 6, 7)):
            refusing.add(a)
        if suberr & refusing:
            flags["refused_renewal"] = True
        if k == 3:
            up[a] = (b == 1)
        elif k == 2 and b == 1:
            wrongkey.add(a)
        elif k == 8:
            abandoned.add(a)
            registered.discard(a)
        elif k == 1:
            if a in abandoned:
                flags["rereg_after_abandon"] = True
            if a in registered and (b == 20 or not up.get(a, True)):
                flags["reg_known_down"] = True
                if a in wrongkey:
                    flags["reg_down_after_wrongkey"] = True
            if b in (0, 2, 5, 6) and up.get(a, True):
                registered.add(a)
    return flags


def classify(fail_line):
    m = re.search(r"prop=(\S+) check=(\d+) family=(\d+) step=(-?\d+) t=(\d+) l=(\d+) site=(\S+) case=(.*)$", fail_line)
    if not m:
        return None
    prop, check, fam, step, t, l, site, case = m.groups()
    key = {"check": int(check), "site": "-" if int(check) == 503 else site}     # (503: `site` carries the sample, not a model site)
    if int(check) in (1303, 1304, 1305, 1405):
        key["detail"] = int(l)      # for these checks the `l` field carries the variant of the check, not a locator
    key.update(pattern_flags(case))
    return {"prop": prop, "check": int(check), "family": int(fam), "step": int(step), "t": int(t), "l": int(l),
            "site": site, "case": case.strip(), "key": key}


def plugin_binary(ctx):
    """watchtower-client built from the CURRENT working tree of the repository (VERIF_REPO or /repo)"""
    repo = os.path.realpath(vlib.REPO)
    # one target directory PER source tree: two trees built into one directory produce the same artifact name, and a tree
    # whose fingerprint is fresh does not get its binary back once the other tree has overwritten it
    if repo == "/repo":
        tdir = os.path.join(vlib.BUILD, "target-plugin")
    else:
        tdir = os.path.join(vlib.BUILD, "target-plugin-alt-" + hashlib.sha256(repo.encode()).hexdigest()[:8])
        seed = os.path.join(vlib.BUILD, "target-plugin-alt")
        with vlib.BuildLock():
            if not os.path.exists(tdir) and os.path.isdir(seed):
                # (the dependencies are the same: start from a copy instead of compiling them again)
                vlib.sh(["cp", "-a", seed, tdir], timeout=600)
                # ... but never trust the seed for the crates of the tree itself
                for pat in ("debug/.fingerprint/watchtower-plugin-*", "debug/.fingerprint/teos-common-*", "debug/watchtower-client",
                            "debug/deps/watchtower_client-*", "debug/deps/libwatchtower_plugin-*", "debug/deps/libteos_common-*"):
                    for f in glob.glob(os.path.join(tdir, pat)):
                        shutil.rmtree(f, ignore_errors=True) if os.path.isdir(f) else os.remove(f)
    with vlib.BuildLock():
        rc, out, dt = vlib.sh(["cargo", "build", "--offline", "--locked", "--bin", "watchtower-client", "--target-dir", tdir],
                              cwd=os.path.join(repo, "watchtower-plugin"), timeout=3000)
    ctx.log(f"cargo build watchtower-client ({repo}) -> rc={rc} in {dt:.1f}s")
    if rc != 0:
        tail = "\n".join(l for l in out.splitlines() if l.startswith("error") or "-->" in l)[:1500]
        ctx.broken.append({"kind": "build", "what": "the plugin binary does not build", "detail": tail or out[-1500:]})
        return None
    return os.path.join(tdir, "debug", "watchtower-client")


def nrand(tier):
    return int(os.environ.get("CP_NRAND", "1200" if tier == "thorough" else "32"))


def harness_run(ctx, plugin, tier, seed=None, extra_tag=""):
    """run (or fetch from the cache) the scenario set; returns the path of the CP lines"""
    seed = ctx.seed if seed is None else seed
    repo = os.path.realpath(vlib.REPO)
    h = hashlib.sha256()
    h.update(client_common.tree_hash([os.path.join(repo, "watchtower-plugin"), os.path.join(repo, "teos-common")]).encode())
    h.update(open(os.path.join(vlib.HARNESS, "src", "bin", "client_proc", "main.rs"), "rb").read())
    h.update(f"{seed}/{tier}/{nrand(tier)}/{extra_tag}".encode())
    key = h.hexdigest()[:20]
    cdir = os.path.join(vlib.BUILD, "cpcache")
    os.makedirs(cdir, exist_ok=True)
    out = os.path.join(cdir, key + ".txt")
    with open(os.path.join(cdir, key + ".lock"), "w") as lf:
        fcntl.flock(lf, fcntl.LOCK_EX)
        try:
            if os.path.exists(out) and os.path.getsize(out) > 0 and not os.environ.get("CP_NOCACHE"):
                ctx.log(f"client_proc[{tier}]: cached run {key}")
                return out, True
            scratch = os.path.join(ctx.work, "scratch-" + key)
            shutil.rmtree(scratch, ignore_errors=True)
            tmp = out + ".tmp"
            env = {"VERIF_TIER": tier, "VERIF_SEED": str(seed), "CP_NRAND": str(nrand(tier)), "CP_PAR": os.environ.get("CP_PAR", "20" if tier == "thorough" else "40")}
            rc, o, dt = vlib.sh(["timeout", "2400", ctx.bin("client_proc"), "run", plugin, tmp, scratch], env=env, timeout=2500)
            ctx.log(f"client_proc[{tier}] run -> rc={rc} in {dt:.1f}s")
            shutil.rmtree(scratch, ignore_errors=True)
            if rc != 0:
                ctx.broken.append({"kind": "correspondence", "what": "client_proc harness failed", "detail": o[-800:]})
                return None, False
            os.replace(tmp, out)
            return out, False
        finally:
            fcntl.flock(lf, fcntl.LOCK_UN)


def drive(ctx, path, label):
    rc, out, dt = vlib.sh([vlib.DRIVER, path], timeout=1800)
    summ = vlib.parse_summary(out).get("CP")
    fails = [l for l in out.splitlines() if l.startswith("FAIL")]
    if rc != 0 or summ is None:
        ctx.broken.append({"kind": "correspondence", "what": f"driver failed on {label}", "detail": out[-800:]})
        return None, fails
    ctx.log(f"{label}: " + " ".join(f"{k}={v}" for k, v in summ.items() if k != "kind"))
    return summ, fails


def replay_cases(ctx, plugin, cases, tag):
    """re-run scenarios on the implementation; returns the driver's FAIL lines"""
    cf = os.path.join(ctx.work, f"replay-{tag}.txt")
    # (family 27 depends on the order in which the plugin's HashMap yields the towers, random per process: several runs of the case)
    open(cf, "w").write("\n".join(c for case in cases for c in [case] * (4 if case.startswith("CPCASE 27 ") else 1)) + "\n")
    of = os.path.join(ctx.work, f"replay-{tag}-out.txt")
    scratch = os.path.join(ctx.work, f"replay-{tag}-scratch")
    shutil.rmtree(scratch, ignore_errors=True)
    rc, o, dt = vlib.sh(["timeout", "1200", ctx.bin("client_proc"), "replay", plugin, cf, of, scratch], timeout=1300)
    shutil.rmtree(scratch, ignore_errors=True)
    if rc != 0:
        return None, ""
    rc, out, _ = vlib.sh([vlib.DRIVER, of], timeout=600)
    return [l for l in out.splitlines() if l.startswith("FAIL")], out


def hist(s):
    if not isinstance(s, str) or not s:
        return {}
    return {a: int(b) for a, b in (x.split(":") for x in s.split(","))}


ADD_CLASS = {0: "accept", 1: "signature of another key", 2: "undecodable signature", 3: "subscription error (7)", 4: "other API error",
             5: "non-JSON", 6: "JSON of another shape", 7: "empty body", 8: "1 MB body", 9: "connection reset", 10: "right keys, wrong types",
             11: "accept, reply held", 12: "non-JSON, multi-byte characters, > 256 bytes"}
REG_CLASS = {0: "good receipt", 1: "signature of another key", 2: "not extending (same expiry)", 3: "non-JSON", 4: "API error",
             5: "not extending (later expiry, no more slots)", 6: "not extending (more slots, same expiry)",
             7: "valid extending receipt of ANOTHER user", 8: "non-JSON, multi-byte characters, > 256 bytes"}


def run_property(ctx, pid, targets, rule, assumptions):
    thorough = ctx.tier == "thorough"
    client_common.repo_override(ctx)
    ctx.translate()
    res = ctx.coq_build(targets + client_common.extraction_targets())
    ctx.coq_hygiene(targets, res)
    ok_h = ctx.cargo_build(["client_proc"])
    plugin = plugin_binary(ctx)
    ok_o = ctx.ocaml_build()
    cov = ctx.coverage
    cov["checker_cmd"] = f"cd /verif/coq && make {' '.join(t[:-2] + '.vo' for t in targets)}   (coqc 8.16.1, full .vo build)"
    cov["trusted_base"] = TRUSTED
    ctx.assumptions += assumptions
    if not (ok_h and ok_o and plugin):
        return ctx.finish("proof")
    tier = "thorough" if thorough else "quick"
    runs = [(tier, ctx.seed)]
    mine, corr, unconfirmed = [], [], []
    total = {}
    while runs:
        t, seed = runs.pop(0)
        out, cached = harness_run(ctx, plugin, t, seed)
        if out is None:
            break
        summ, fails = drive(ctx, out, f"client_proc[{t},seed={seed}]")
        if summ is None:
            break
        for a, b in summ.items():
            if isinstance(b, int):
                total[a] = max(total.get(a, 0), b) if a.startswith(("max_", "latency_max")) else total.get(a, 0) + b
            elif a != "kind":
                d = hist(total.get(a, ""))
                for x, y in hist(b).items():
                    d[x] = d.get(x, 0) + y
                total[a] = ",".join(f"{x}:{y}" for x, y in sorted(d.items(), key=lambda z: int(z[0])))
        mon = [classify(f) for f in fails if f.startswith("FAIL mon")]
        mon = [m for m in mon if m and m["prop"] == pid]
        cf = [f for f in fails if f.startswith("FAIL corr")]
        # a failure must reproduce when the scenario is replayed on the implementation (the harness is timing driven)
        # (a sample of the database sampler IS an observation of a durable state: it needs no confirmation, and the window it fell
        #  into is a matter of milliseconds, so a replay may well miss it)
        for m in mon:
            if m["check"] == 503 and m not in mine:
                mine.append(m)
        mon = [m for m in mon if m["check"] != 503]
        if mon:
            cases = sorted({m["case"] for m in mon})[:12]
            for attempt in range(2):
                rf, _ = replay_cases(ctx, plugin, cases, f"mon{attempt}")
                got = {(c["case"], c["check"]) for c in (classify(f) for f in (rf or []) if f.startswith("FAIL mon")) if c and c["prop"] == pid}
                for m in mon:
                    if (m["case"], m["check"]) in got and m not in mine:
                        mine.append(m)
                if all(m in mine for m in mon if m["case"] in cases):
                    break
            unconfirmed += [m for m in mon if m not in mine]
        if cf:
            cases = sorted({f.split("case=", 1)[1].strip() for f in cf if "case=" in f})[:12]
            rf, _ = replay_cases(ctx, plugin, cases, "corr") if cases else (cf, "")
            again = [f for f in (rf or []) if f.startswith("FAIL corr")]
            if again or not cases:
                corr += again or cf
            else:
                ctx.notes.append(f"{len(cf)} correspondence disagreement(s) did not reproduce on replay (timing): {cf[0][:300]}")
        # a broken tie widens the search once
        unknown = [m for m in mine if vlib.match_known(ctx.known, {"key": m["key"]}) is None]
        if (corr or ctx.broken) and not unknown and t == "quick" and not runs and seed == ctx.seed:
            # (300 random scenarios instead of the thorough tier's 1200: the widened search has to fit in a quick check)
            os.environ["CP_NRAND"] = os.environ.get("CP_NRAND_WIDEN", "300")
            runs.append(("thorough", ctx.seed + 1))
    if total:
        cov["evaluations"] = total.get("cases", 0)
        cov["steps"] = total.get("steps", 0)
        cov["distinct_nontrivial"] = total.get("distinct_nontrivial", 0)
        cov["traces_validated_against_impl"] = total.get("cases", 0)
        cov["settle_point_comparisons"] = total.get("settle_compares", 0)
        cov["kills_placed"] = total.get("kills", 0)
        cov["database_samples_taken"] = total.get("db_samples", 0)
        cov["pending_to_accepted_moves_sampled"] = total.get("moves_sampled", 0)
        cov["moves_whose_intermediate_state_was_sampled"] = total.get("moves_seen_with_both_records", 0)
        cov["vanished_samples"] = total.get("vanished_samples", 0)
        cov["requests_seen_by_towers"] = total.get("requests", 0)
        cov["max_candidate_states"] = total.get("max_candidates", 0)
        cov["settle_steps_that_hit_their_cap"] = total.get("settle_caps", 0)
        cov["scenario_family_counts"] = hist(total.get("families", ""))
        cov["add_appointment_reply_class_histogram"] = {ADD_CLASS.get(int(k), k): v for k, v in hist(total.get("add_classes", "")).items()}
        cov["register_reply_class_histogram"] = {REG_CLASS.get(int(k), k): v for k, v in hist(total.get("reg_classes", "")).items()}
        cov["step_kind_counts"] = hist(total.get("step_kinds", ""))
        cov["delivery_latency_after_recovery_ms"] = {"n": total.get("latency_n", 0), "avg": total.get("latency_avg_ms", 0) // max(1, len([1])),
                                                     "max": total.get("latency_max_ms", 0)}
        cov["monitor_codes_seen"] = hist(total.get("mon_codes", ""))
        cov["unconfirmed_monitor_failures"] = [f"{m['check']} family={m['family']} {m['case'][:200]}" for m in unconfirmed][:5]
        cov["rule"] = rule
        try:
            with open(out) as f:
                cov["samples"] = [l[:500] for l in f.read().splitlines()[:2]]
        except OSError:
            pass
    if corr:
        ctx.broken.append({"kind": "correspondence", "what": "the model cannot explain what the plugin did (trace inclusion fails at a settle point)",
                           "first": corr[0][:2000], "count": len(corr)})
    seen = set()
    for m in sorted(mine, key=lambda m: len(m["case"])):
        kk = json.dumps(m["key"], sort_keys=True)
        if kk in seen:
            continue
        seen.add(kk)
        ctx.add_violation(f"{pid} monitor false on the real plugin: {NAMES.get(m['check'], m['check'])} (step {m['step']}, tower {m['t']}, locator {m['l']})",
                          {"kind": "client_proc", "case": m["case"], "check": m["check"], "step": m["step"], "tower": m["t"], "locator": m["l"],
                           ("database_sample" if m["check"] == 503 else "model_abort_site"): m["site"], "how": "steps are (kind a b): 1 REG t class | 2 MODE t class | 3 UP t 0/1 | 4 REV l | 5 SETTLE | "
                           "6 SLEEP ms | 7 RETRY t | 8 ABANDON t | 9 KILL (KILL t ms: at the two-record state of a pending -> accepted move of tower t, the sampler pulls the trigger) | 10 START | "
                           "11 REVNOWAIT l ms | 12 WAKE | 13 WAITSTATUS t status | 14 WAITREQ t l (see harness/src/bin/client_proc/main.rs)"},
                          m["key"])
    return ctx.finish("proof")


def replay(ctx, path, pid):
    obj = json.load(open(path))["replay"]
    if obj.get("kind") != "client_proc":
        print(json.dumps(obj, indent=1))
        return 1
    client_common.repo_override(ctx)
    ok = ctx.cargo_build(["client_proc"])
    plugin = plugin_binary(ctx)
    if not (ok and plugin and ctx.ocaml_build()):
        return 2
    fails, out = replay_cases(ctx, plugin, [obj["case"]], "user")
    print(out)
    return 1 if any(f.startswith("FAIL mon") and f" prop={pid} " in f for f in (fails or [])) else 0
