#!/usr/bin/env python3
"""translate.py — regenerates coq/theories/Gen/*.v from /repo's current source.

Covers the declarative fragments of the code (constants, tables, schemas, configuration
statements).  Every extraction has one strict expected shape; anything else raises
TranslateError (reported by vcheck as a broken tie, never guessed around).
Files are written only when their content changes, so an unchanged tree rebuilds nothing.
"""
import os
import re
import sys

REPO = os.environ.get("VERIF_REPO", "/repo")
GEN = os.path.join(os.path.dirname(os.path.abspath(__file__)), "..", "coq", "theories", "Gen")


class TranslateError(Exception):
    pass


def read(rel):
    p = os.path.join(REPO, rel)
    try:
        with open(p) as f:
            return f.read()
    except OSError as e:
        raise TranslateError(f"cannot read {rel}: {e}")


def strip_comments(src):
    """Remove // line comments and /* */ block comments, keeping string literals intact."""
    out = []
    i, n = 0, len(src)
    while i < n:
        c = src[i]
        if c == '"':
            j = i + 1
            while j < n and src[j] != '"':
                j += 2 if src[j] == "\\" else 1
            out.append(src[i : j + 1])
            i = j + 1
        elif src.startswith("//", i):
            j = src.find("\n", i)
            i = n if j < 0 else j
        elif src.startswith("/*", i):
            j = src.find("*/", i + 2)
            i = n if j < 0 else j + 2
        elif c == "'" and i + 2 < n and (src[i + 2] == "'" or (src[i + 1] == "\\" and i + 3 < n and src[i + 3] == "'")):
            j = i + (3 if src[i + 2] == "'" else 4)
            out.append(src[i:j])
            i = j
        else:
            out.append(c)
            i += 1
    return "".join(out)


def strip_tests(src):
    """Drop everything from the first `#[cfg(test)]` on (test modules sit at the end of files)."""
    i = src.find("#[cfg(test)]\nmod tests")
    return src if i < 0 else src[:i]


def code(rel):
    return strip_comments(strip_tests(read(rel)))


CONST_RE = re.compile(
    r"^\s*(?:pub(?:\([a-z]+\))?\s+)?const\s+([A-Z][A-Z0-9_]*)\s*:\s*(u8|u16|u32|u64|usize|i32|i64|f32)\s*=\s*([^;]+);", re.M
)


def eval_const_expr(val, found):
    """integer literals (with _ separators and an optional type suffix), earlier constants of the same file, and
    + - * / << and parentheses over them; anything else -> None (reported as a shape the translator refuses)"""
    toks = re.findall(r"\s*(0x[0-9a-fA-F_]+|[0-9][0-9_]*(?:u8|u16|u32|u64|usize|i32|i64)?|[A-Z][A-Z0-9_]*|<<|[-+*/()])", val)
    if "".join(toks).replace(" ", "") != re.sub(r"\s+", "", val):
        return None
    out = []
    for t in toks:
        if re.fullmatch(r"0x[0-9a-fA-F_]+", t):
            out.append(str(int(t.replace("_", ""), 16)))
        elif re.fullmatch(r"[0-9][0-9_]*(?:u8|u16|u32|u64|usize|i32|i64)?", t):
            out.append(str(int(re.sub(r"(u8|u16|u32|u64|usize|i32|i64)$", "", t).replace("_", ""))))
        elif re.fullmatch(r"[A-Z][A-Z0-9_]*", t):
            if t not in found:
                return None
            out.append(str(found[t]))
        elif t == "/":
            out.append("//")
        else:
            out.append(t)
    try:
        v = eval(" ".join(out), {"__builtins__": {}}, {})  # digits and arithmetic operators only
    except Exception:
        return None
    return v if isinstance(v, int) else None


def int_consts(rel, wanted=None, prefix=""):
    """All `const NAME: <int type> = <literal | other const>;` of a file, in order."""
    src = code(rel)
    found = {}
    order = []
    for m in CONST_RE.finditer(src):
        name, _ty, val = m.group(1), m.group(2), m.group(3).strip()
        ev = eval_const_expr(val, found)
        if ev is None:
            raise TranslateError(f"{rel}: constant {name} has an initialiser I cannot evaluate: {val!r}")
        found[name] = ev
        order.append(name)
    if wanted is not None:
        for w in wanted:
            if w not in found:
                raise TranslateError(f"{rel}: expected constant {w} not found")
        order = [w for w in wanted]
    return [(prefix + n, found[n]) for n in order]


def zlit(v):
    return f"({v})%Z" if v < 0 else f"{v}%Z"


def gen_consts():
    groups = [
        ("teos-common/src/constants.rs", None, ""),
        ("teos-common/src/errors.rs", None, "ERR_"),
        ("teos/src/rpc_errors.rs", None, ""),
        ("teos/src/errors.rs", None, ""),
        ("teos/src/api/http.rs", ["REGISTER_BODY_LEN", "ADD_APPOINTMENT_BODY_LEN", "GET_APPOINTMENT_BODY_LEN", "GET_SUBSCRIPTION_INFO_BODY_LEN"], ""),
        ("teos/src/responder.rs", ["CONFIRMATIONS_BEFORE_RETRY"], ""),
        ("teos-common/src/appointment.rs", ["LOCATOR_LEN"], ""),
        ("teos-common/src/lib.rs", ["USER_ID_LEN"], ""),
        ("watchtower-plugin/src/constants.rs", ["DEFAULT_WT_PORT", "DEFAULT_WT_MAX_RETRY_TIME", "DEFAULT_WT_AUTO_RETRY_DELAY", "DEFAULT_DEV_WT_MAX_RETRY_INTERVAL"], ""),
    ]
    lines = ["(* GENERATED by tools/translate.py from /repo — do not edit. *)", "From Coq Require Import ZArith List.", "Import ListNotations.", ""]
    seen = set()
    for rel, wanted, prefix in groups:
        lines.append(f"(* {rel} *)")
        for name, val in int_consts(rel, wanted, prefix):
            if name in seen:
                raise TranslateError(f"duplicate generated constant {name}")
            seen.add(name)
            lines.append(f"Definition {name} : Z := {zlit(val)}.")
        lines.append("")

    # main.rs: sizes of the two bounded indexes and the listener order
    main = code("teos/src/main.rs")
    m = re.search(r"get_last_n_blocks\(\s*&mut poller\s*,\s*tip\s*,\s*([A-Z_0-9a-z ]+?)\s*\)", main)
    if not m:
        raise TranslateError("teos/src/main.rs: call get_last_n_blocks(&mut poller, tip, N) not found")
    arg = m.group(1).strip()
    if arg == "IRREVOCABLY_RESOLVED as usize":
        lines.append("Definition RESPONDER_INDEX_SIZE : Z := IRREVOCABLY_RESOLVED.")
    elif re.fullmatch(r"[0-9]+", arg):
        lines.append(f"Definition RESPONDER_INDEX_SIZE : Z := {arg}%Z.")
    else:
        raise TranslateError(f"teos/src/main.rs: unexpected block count argument {arg!r}")
    m = re.search(r"Responder::new\(\s*&last_n_blocks\s*,", main)
    if not m:
        raise TranslateError("teos/src/main.rs: Responder::new(&last_n_blocks, ..) not found")
    m = re.search(r"Watcher::new\(\s*gatekeeper\.clone\(\)\s*,\s*responder\.clone\(\)\s*,\s*&last_n_blocks\[\s*([0-9]+)\s*\.\.\s*([0-9]+)\s*\]\s*,", main)
    if not m:
        raise TranslateError("teos/src/main.rs: Watcher::new(.., &last_n_blocks[a..b], ..) not found")
    lines.append(f"Definition WATCHER_CACHE_FROM : Z := {m.group(1)}%Z.")
    lines.append(f"Definition WATCHER_CACHE_TO : Z := {m.group(2)}%Z.")
    m = re.search(r"let\s+listener\s*=\s*&\(\s*([a-z_]+)(?:\.clone\(\))?\s*,\s*&\(\s*([a-z_]+)(?:\.clone\(\))?\s*,\s*([a-z_]+)(?:\.clone\(\))?\s*\)\s*\)\s*;", main)
    if not m:
        raise TranslateError("teos/src/main.rs: listener tuple not found")
    names = {"gatekeeper": 0, "watcher": 1, "responder": 2}
    order = []
    for g in m.groups():
        if g not in names:
            raise TranslateError(f"teos/src/main.rs: unknown listener {g}")
        order.append(names[g])
    lines.append("(* listener order: 0 = gatekeeper, 1 = watcher, 2 = responder *)")
    lines.append("Definition LISTENER_ORDER : list Z := [" + "; ".join(f"{x}%Z" for x in order) + "].")
    lines.append("")
    return "\n".join(lines) + "\n"


GENERATORS = {"Consts.v": gen_consts}


def register(name):
    def deco(f):
        GENERATORS[name] = f
        return f

    return deco


def write_if_changed(path, content):
    try:
        with open(path) as f:
            if f.read() == content:
                return False
    except OSError:
        pass
    with open(path, "w") as f:
        f.write(content)
    return True


def main():
    # the other generators live in sibling modules that register themselves
    here = os.path.dirname(os.path.abspath(__file__))
    sys.path.insert(0, here)
    for fn in sorted(os.listdir(here)):
        if fn.startswith("translate_") and fn.endswith(".py"):
            __import__(fn[:-3])
    os.makedirs(GEN, exist_ok=True)
    errors = []
    changed = []
    for name, fn in GENERATORS.items():
        try:
            if write_if_changed(os.path.join(GEN, name), fn()):
                changed.append(name)
        except TranslateError as e:
            errors.append(f"{name}: {e}")
    for c in changed:
        print(f"translate: regenerated Gen/{c}")
    for e in errors:
        print(f"TRANSLATE-ERROR {e}")
    return 1 if errors else 0


if __name__ == "__main__":
    # make `import translate` in the sibling modules resolve to this very module object
    sys.modules["translate"] = sys.modules["__main__"]
    sys.exit(main())
